package main

// C05 - no program can crash the host: every runtime fault is an ordinary error.
// Bounded-exhaustive fault enumeration: (fault source) x (context) x GOMAXPROCS, every case evaluated by
// the real implementation in an isolated worker process (c05_worker.go); observed class
// (value / catch value / error / process died) against the model's class (coq/Conc/Crash.v through
// coq/Run/C05Run.v) and against the property (the process must not die; try/catch must catch).

import (
	"bytes"
	"context"
	"encoding/json"
	"fmt"
	"github.com/hneemann/parser2/value"
	"math"
	"os"
	"os/exec"
	"regexp"
	"sort"
	"strings"
	"sync"
	"time"
)

func init() { register("c05", cmdC05) }

// ---------- values handed to the programs as arguments ----------

type c05Val struct {
	Text string // closed expression of the value language
	Kind string
	Coq  string // the same value as a term of Sem/Syntax.v value
}

func c05CoqInt(s string) string { return "(VInt (" + s + ")%Z)" }

func c05CoqFloat(f float64) string {
	if f == 0 {
		if math.Signbit(f) {
			return "(VFloat FNegZero)"
		}
		return "(VFloat (FFin 0%Z 0%Z))"
	}
	bits := math.Float64bits(f)
	neg := bits>>63 == 1
	exp := int((bits >> 52) & 0x7ff)
	man := int64(bits & (1<<52 - 1))
	if exp == 0 {
		exp = 1
	} else {
		man |= 1 << 52
	}
	e := exp - 1075
	for man%2 == 0 {
		man /= 2
		e++
	}
	if neg {
		man = -man
	}
	return fmt.Sprintf("(VFloat (FFin (%d)%%Z (%d)%%Z))", man, e)
}

func c05CoqStrV(s string) string { return "(VStr " + CoqStr(s) + ")" }

var c05Pool = []c05Val{
	{"1", "int", c05CoqInt("1")}, {"0", "int", c05CoqInt("0")}, {"-1", "int", c05CoqInt("-1")}, {"2", "int", c05CoqInt("2")},
	{"63", "int", c05CoqInt("63")}, {"64", "int", c05CoqInt("64")}, {"65", "int", c05CoqInt("65")},
	{"9223372036854775807", "int", c05CoqInt("9223372036854775807")},
	{"-9223372036854775807-1", "int", c05CoqInt("-9223372036854775808")},
	{"0.5", "float", c05CoqFloat(0.5)}, {"2.0", "float", c05CoqFloat(2)}, {"-1.5", "float", c05CoqFloat(-1.5)}, {"0.0", "float", c05CoqFloat(0)},
	{`"a"`, "str", c05CoqStrV("a")}, {`""`, "str", c05CoqStrV("")}, {`"ab"`, "str", c05CoqStrV("ab")}, {`"4"`, "str", c05CoqStrV("4")},
	{"true", "bool", "(VBool true)"}, {"false", "bool", "(VBool false)"},
	{"[1,2]", "list", "(VList [" + c05CoqInt("1") + ";" + c05CoqInt("2") + "])"}, {"[]", "list", "(VList [])"},
	{`["a",1]`, "list", "(VList [" + c05CoqStrV("a") + ";" + c05CoqInt("1") + "])"},
	{"[[1],[2]]", "list", "(VList [VList [" + c05CoqInt("1") + "]; VList [" + c05CoqInt("2") + "]])"},
	{"{a:1}", "map", "(VMap [(" + CoqStr("a") + "," + c05CoqInt("1") + ")])"},
	{`{a:1,b:"x"}`, "map", "(VMap [(" + CoqStr("a") + "," + c05CoqInt("1") + ");(" + CoqStr("b") + "," + c05CoqStrV("x") + ")])"},
	{"x->x", "func", "(VClo [" + CoqStr("x") + "] (AIdent " + CoqStr("x") + ") [] [])"},
	{"(p,q)->p", "func", "(VClo [" + CoqStr("p") + ";" + CoqStr("q") + "] (AIdent " + CoqStr("p") + ") [] [])"},
}

var c05Kinds = []string{"int", "float", "str", "bool", "list", "map", "func"}

func c05ByKind(kind string) []c05Val {
	var r []c05Val
	for _, v := range c05Pool {
		if v.Kind == kind {
			r = append(r, v)
		}
	}
	return r
}

func c05Rep(kind string) c05Val { return c05ByKind(kind)[0] }

func c05Find(text string) c05Val {
	for _, v := range c05Pool {
		if v.Text == text {
			return v
		}
	}
	panic("c05: no pool value " + text)
}

// ---------- fault sources ----------

type c05Leaf struct {
	Src      string   `json:"src"`      // kind of fault source (first component of the signature)
	Prelude  string   `json:"prelude"`  // declarations placed in front of the whole program
	Expr     string   `json:"expr"`     // the expression, over the arguments a, b, c
	Args     []string `json:"args"`     // texts of the argument values
	Coq      string   `json:"coq"`      // leafsrc term
	MaxStack int      `json:"maxstack"` // reduced Go stack limit for the worker (0 = default 1 GB)
	D        int64    `json:"d"`        // number of nested Go calls the stack is taken to hold (model parameter)
	Heavy    bool     `json:"heavy"`    // never batched
}

const c05DefaultD = (1 << 30) / 2048 // the default 1 GB stack holds at least this many frames of < 2 KB

func c05KindsOf(vs []c05Val) string {
	ks := make([]string, len(vs))
	for i, v := range vs {
		ks[i] = v.Kind
	}
	return strings.Join(ks, ",")
}

func c05TextsOf(vs []c05Val) []string {
	ts := make([]string, len(vs))
	for i, v := range vs {
		ts[i] = v.Text
	}
	return ts
}

func c05CoqsOf(vs []c05Val) string {
	ts := make([]string, len(vs))
	for i, v := range vs {
		ts[i] = v.Coq
	}
	return "[" + strings.Join(ts, ";") + "]"
}

var c05ArgNames = []string{"a", "b", "c"}

var c05BinOps = []string{"|", "&", "=", "!=", "~", "<", ">", "<=", ">=", "+", "-", "<<", ">>", "*", "%", "/", "^"}

func c05LeafOp(op string, a, b c05Val) c05Leaf {
	return c05Leaf{Src: "op:" + op + "/" + a.Kind + "," + b.Kind, Expr: "a " + op + " b", Args: []string{a.Text, b.Text},
		Coq: fmt.Sprintf("(LOp %s %s %s)", CoqStr(op), a.Coq, b.Coq), D: c05DefaultD}
}

func c05LeafUnary(op string, a c05Val) c05Leaf {
	return c05Leaf{Src: "unary:" + op + "/" + a.Kind, Expr: op + " a", Args: []string{a.Text},
		Coq: fmt.Sprintf("(LUnary %s %s)", CoqStr(op), a.Coq), D: c05DefaultD}
}

func c05LeafStatic(name string, args []c05Val, modelled bool) c05Leaf {
	coq := "LUnknown"
	if modelled {
		coq = fmt.Sprintf("(LStatic %s %s)", CoqStr(name), c05CoqsOf(args))
	}
	return c05Leaf{Src: "static:" + name + "/" + c05KindsOf(args), Expr: name + "(" + strings.Join(c05ArgNames[:len(args)], ",") + ")",
		Args: c05TextsOf(args), Coq: coq, D: c05DefaultD}
}

func c05LeafMethod(recv c05Val, name string, args []c05Val, modelled bool) c05Leaf {
	coq := "LUnknown"
	if modelled {
		coq = fmt.Sprintf("(LMethod %s %s %s)", recv.Coq, CoqStr(name), c05CoqsOf(args))
	}
	return c05Leaf{Src: "method:" + recv.Kind + "." + name + "/" + c05KindsOf(args),
		Expr: "a." + name + "(" + strings.Join(c05ArgNames[1:1+len(args)], ",") + ")",
		Args: append([]string{recv.Text}, c05TextsOf(args)...), Coq: coq, D: c05DefaultD}
}

func c05LeafIndex(l, i c05Val) c05Leaf {
	return c05Leaf{Src: "index/" + l.Kind + "," + i.Kind, Expr: "a[b]", Args: []string{l.Text, i.Text},
		Coq: fmt.Sprintf("(LIndex %s %s)", l.Coq, i.Coq), D: c05DefaultD}
}

func c05LeafMember(m c05Val, key string) c05Leaf {
	return c05Leaf{Src: "member/" + m.Kind, Expr: "a." + key, Args: []string{m.Text},
		Coq: fmt.Sprintf("(LMember %s %s)", m.Coq, CoqStr(key)), D: c05DefaultD}
}

func c05LeafFault(src, prelude, expr, fault string) c05Leaf {
	return c05Leaf{Src: src, Prelude: prelude, Expr: expr, Args: []string{"1", "0"}, Coq: "(LFault " + fault + ")", D: c05DefaultD}
}

const c05SmallStack = 16 << 20
const c05TinyStack = 4 << 20
const c05BigStack = 128 << 20

// recursion whose recursive call sits in the closure handed to a method or function: one shape per
// closure-taking built-in of value.New() (c05RecShapes). %R-free: the body calls rf itself.
type c05RecShape struct{ Method, Body string }

var c05RecShapes = []c05RecShape{
	{"direct-call", "rf(n+1)+1"},
	{"closure-call", "let c=e->rf(e+1); c(n)"},
	{"map-field-call", "{k:e->rf(e+1)}.k(n)"},
	{"catch-closure", `try throw("x") catch e->rf(n+1)`},
	{"closure.invoke", "let c=e->rf(e+1); c.invoke([n])"},
	{"list.map", "[n].map(e->rf(e+1)).first()"},
	// consumed by an index access: AccessList evaluated the lazy list on a stack of depth 0 (fixed: 7bcad40)
	{"index-access", "numbers(2).map(e->rf(n+1))[0]"},
	{"index-access-number", "[n,n].number((i,e)->rf(e+1))[1]"},
	{"list.accept", "[n].accept(e->rf(e+1)>=0).size()"},
	{"list.reduce", "[n,n].reduce((p,q)->rf(q+1))"},
	{"list.mapReduce", "[n].mapReduce(0,(s,e)->rf(e+1))"},
	{"list.combine", "[n,n].combine((p,q)->rf(q+1)).first()"},
	{"list.combine3", "[n,n,n].combine3((p,q,r)->rf(q+1)).first()"},
	{"list.combineN", "[n,n].combineN(2,l->rf(n+1)).first()"},
	{"list.compact", "[n,n].compact((p,q)->rf(q+1)>=0).size()"},
	{"list.cross", "[n].cross([1],(p,q)->rf(p+q)).first()"},
	{"list.merge", "[n].merge([n],(p,q)->rf(q+1)>=0).size()"},
	{"list.iir", "[n,n].iir(i->rf(i+1),(i,l)->l).first()"},
	{"list.iirCombine", "[n,n].iirCombine(i->rf(i+1),(i,j,l)->l).first()"},
	{"list.iirApply", "[n,n].iirApply({initial:i->rf(i+1),filter:(i,j,l)->l}).first()"},
	{"list.fsm", "[n].fsm((s,i)->goto(rf(i+1))).first().state"},
	{"list.visit", "[n].visit(0,(v,e)->rf(e+1))"},
	{"list.number", "[n].number((i,e)->rf(e+1)).first()"},
	{"list.indexWhere", "[n].indexWhere(e->rf(e+1)>=0)"},
	{"list.present", "if [n].present(e->rf(e+1)>=0) then 0 else 0"},
	{"list.order", "[n,n].order(e->rf(e+1)).size()"},
	{"list.orderRev", "[n,n].orderRev(e->rf(e+1)).size()"},
	{"list.orderLess", "[n,n].orderLess((p,q)->rf(q+1)>=1).size()"},
	{"list.groupByString", "[n].groupByString(e->string(rf(e+1))).size()"},
	{"list.groupByInt", "[n].groupByInt(e->rf(e+1)).size()"},
	{"list.groupByEqual", "[n].groupByEqual(e->rf(e+1)).size()"},
	{"list.uniqueString", "[n].uniqueString(e->string(rf(e+1))).size()"},
	{"list.uniqueInt", "[n].uniqueInt(e->rf(e+1)).size()"},
	{"list.minMax", "int([n].minMax(e->rf(e+1)).min)"},
	{"list.replaceList", "[n].replaceList(l->rf(n+1))"},
	{"list.multiUse", "[n].multiUse({u:l->l.size()+rf(n+1)-1}).u"},
	{"list.movingWindow", "[n,n].movingWindow(e->float(rf(e+1))).size()"},
	{"list.movingWindowRemove", "[n,n].movingWindowRemove(l->rf(n+1)<0).size()"},
	{"list.binning", "[n].binning(0,1,2,e->rf(e+1),e->1).size()"},
	{"list.binning2d", "[n].binning2d(0,1,2,0,1,2,e->rf(e+1),e->0,e->1).size()"},
	{"list.createInterpolation", "int([n,n+1].createInterpolation(e->float(rf(e+1)+e),e->1.0)(0.0))-1"},
	{"list.linearReg", "int([n,n+1].linearReg(e->float(rf(e+1)+e),e->1.0).b)-1"},
	{"map.accept", "{k:n}.accept((k,v)->rf(v+1)>=0).size()-1"},
	{"map.map", "{k:n}.map((k,v)->rf(v+1)).k"},
	{"map.combine", "{k:n}.combine({k:n},(p,q)->rf(q+1)).k"},
	{"map.replace", "{k:n}.replace(m->{k:rf(n+1)}).k"},
	{"map.replaceMap", "{k:n}.replaceMap(m->rf(n+1))"},
	{"static.bisection", "int(bisection(x->float(rf(n+1))+x,-1,1))"},
	{"static.createLowPass", `int(createLowPass("y",p->1.0,p->float(rf(n+1)),1.0).initial({t:0}).y)`},
}

// mixed recursion: k directly recursive levels between two hops through a method that forks a private stack
// (funcGen.NewEmptyStackBelow), in both orders; the depth count must be inherited over every hop
var c05Hops = []c05RecShape{
	{"list.map", "[n].map(e->rf(e+1)).first()"},
	{"list.accept", "[n].accept(e->rf(e+1)>=0).size()"},
	{"list.multiUse", "[n].multiUse({u:l->l.size()+rf(n+1)-1}).u"},
	{"merge-operand", "[n,n].combine((p,q)->rf(q+1)).merge([],(p,q)->p<q).first()"},
}

type c05MixedShape struct {
	c05RecShape
	Hop     string
	Between int
}

func c05MixedShapes() []c05MixedShape {
	var r []c05MixedShape
	for _, h := range c05Hops {
		for _, k := range []int{100, 999, 3000} {
			r = append(r, c05MixedShape{c05RecShape{fmt.Sprintf("mixed:%d-direct-then-%s", k, h.Method),
				fmt.Sprintf("if n%%%d=%d then %s else rf(n+1)", k+1, k, h.Body)}, h.Method, k})
			r = append(r, c05MixedShape{c05RecShape{fmt.Sprintf("mixed:%s-then-%d-direct", h.Method, k),
				fmt.Sprintf("if n%%%d=0 then %s else rf(n+1)", k+1, h.Body)}, h.Method, k})
		}
	}
	return r
}

func c05LeafMixed(sh c05MixedShape, runaway bool) c05Leaf {
	depth := fmt.Sprint(c05RecBound)
	pre := fmt.Sprintf("func rf(n) if n>%d then 0 else %s; ", c05RecBound, sh.Body)
	if runaway {
		depth = "4611686018427387904"
		pre = "func rf(n) " + sh.Body + "; "
	}
	l := c05LeafFault("recursion-through:"+sh.Method, pre, "rf(a)",
		fmt.Sprintf("(FRecMixed %s %d 1 8 %s)", CoqStr(sh.Hop), sh.Between, depth))
	l.Heavy = true
	if runaway {
		l.MaxStack, l.D = c05BigStack, c05BigStack/1024
	}
	return l
}

// "long history": no recursion in the program - an ordinary loop of N steps builds a data structure whose depth grows
// with N, then ONE observer walks it. Expectation: value or error, never death. Observed under a 4 MB Go stack.
type c05DeepShape struct {
	Name  string
	Prog  string // N = number of steps
	N     int
	Deep  bool // the observer's Go recursion grows with N on the code as it is (known findings)
	Quick bool
}

var c05DeepShapes = []c05DeepShape{
	{"replace-chain-through-returned-map.get", "numbers(N).mapReduce({a:-1},(m,i)->{a:i}.replace(x->m)).a", 100000, false, true},
	{"replace-chain-through-returned-map.get", "numbers(N).mapReduce({a:-1},(m,i)->{a:i}.replace(x->m)).a", 300000, false, true},
	{"replace-chain-through-receiver.get", "numbers(N).mapReduce({a:-1},(m,i)->m.replace(x->{a:i})).a", 100000, false, true},
	{"replace-chain-through-returned-map.size", "numbers(N).mapReduce({a:-1},(m,i)->{a:i}.replace(x->m)).size()", 100000, false, true},
	{"replace-chain-through-returned-map.string", "string(numbers(N).mapReduce({a:-1},(m,i)->{a:i}.replace(x->m))).len()", 100000, false, true},
	{"replace-chain-through-returned-map.eq", "numbers(N).mapReduce({a:-1},(m,i)->{a:i}.replace(x->m))={a:1}", 100000, false, true},
	{"replace-chain-through-receiver.size", "numbers(N).mapReduce({a:-1},(m,i)->m.replace(x->{a:i})).size()", 300000, false, false},
	{"map-map-chain.get", "numbers(N).mapReduce({a:1},(m,i)->m.map((k,v)->v+1)).a", 100000, false, true},
	{"append-chain.size", "numbers(N).mapReduce([],(l,i)->l.append(i)).size()", 100000, false, true},
	{"string-concat-chain.len", `numbers(N).mapReduce("",(s,i)->s+"x").len()`, 10000, false, true},
	{"list-plus-chain-left.size", "numbers(N).mapReduce([],(l,i)->l+[i]).size()", 10000, false, true},
	{"list-plus-chain-right.sum", "numbers(N).mapReduce([],(l,i)->[i]+l).sum()", 10000, false, false},
	{"put-chain.size", `numbers(N).mapReduce({},(m,i)->m.put("k"+i,i)).size()`, 1000, false, true},
	{"put-chain.get", `numbers(N).mapReduce({},(m,i)->m.put("k"+i,i)).k0`, 3000, false, false},
	{"merge-chain-left.get", `numbers(N).mapReduce({},(m,i)->m+{}.put("k"+i,i)).k0`, 1000, false, true},
	{"merge-chain-right.size", `numbers(N).mapReduce({},(m,i)->{}.put("k"+i,i)+m).size()`, 1000, false, false},
	{"lazy-map-chain.first", "numbers(N).mapReduce([1],(l,i)->l.map(e->e+1)).first()", 100000, true, true},
	{"lazy-skip-chain.first", "numbers(N).mapReduce([1,2],(l,i)->l.skip(0)).first()", 100000, true, true},
	{"lazy-accept-chain.size", "numbers(N).mapReduce([1,2],(l,i)->l.accept(e->true)).size()", 30000, true, true},
	{"nested-list.string", "string(numbers(N).mapReduce([],(l,i)->[l])).len()", 100000, true, true},
	{"nested-map.string", "string(numbers(N).mapReduce({},(m,i)->{a:m})).len()", 100000, true, true},
	{"nested-list.eq", "let d=numbers(N).mapReduce([],(l,i)->[l]); d=d", 100000, true, true},
}

func c05LeafDeep(sh c05DeepShape, n int) c05Leaf {
	depth := 10
	if sh.Deep {
		depth = n
	}
	l := c05LeafFault("deep-data:"+sh.Name, "", "("+strings.ReplaceAll(sh.Prog, "N", fmt.Sprint(n))+")", fmt.Sprintf("(FDeepData %d 8)", depth))
	if strings.HasPrefix(sh.Prog, "let ") {
		l.Prelude, l.Expr = strings.ReplaceAll(sh.Prog[:strings.Index(sh.Prog, ";")+1], "N", fmt.Sprint(n))+" ", strings.TrimSpace(sh.Prog[strings.Index(sh.Prog, ";")+1:])
	}
	l.MaxStack, l.D, l.Heavy = c05TinyStack, c05TinyStack/32, true
	return l
}

// N nested closures built by a loop and called once: the value stack guard answers
func c05LeafClosureNest(n int) c05Leaf {
	l := c05LeafFault("deep-data:closure-nest.call", "", fmt.Sprintf("numbers(%d).mapReduce(x->x,(f,i)->x->f(x)+1)(0)", n), "(FRecShared 0 1 8)")
	l.Heavy = true
	return l
}

const c05RecBound = 12000 // deeper than the 10000 slots of the guard

// the built-ins of value.New() whose documentation mentions a function argument; every one of them must
// have a shape above (checked on every run: a new closure-taking built-in without a shape is reported)
func c05ClosureTakers() []string {
	var r []string
	for _, td := range value.New().GetDocumentation() {
		pre := td.Name + "."
		if td.Name == "global" {
			pre = "static."
		}
		for _, fd := range td.Functions {
			if fd.Description == nil {
				continue
			}
			txt := strings.Join(fd.Description.Args, " ")
			if strings.Contains(txt, "func") || strings.Contains(txt, "equal(") || fd.Name == "iirApply" || fd.Name == "invoke" {
				r = append(r, pre+fd.Name)
			}
		}
	}
	return r
}

// recursion to depth 12000 with a base case: an error (the guard fires) when the method runs the closure
// on the caller's storage, the value 0.. when it starts a fresh storage per level
func c05LeafRecBounded(sh c05RecShape) c05Leaf {
	l := c05LeafFault("recursion-through:"+sh.Method, fmt.Sprintf("func rf(n) if n>%d then 0 else %s; ", c05RecBound, sh.Body), "rf(a)",
		fmt.Sprintf("(FRecThrough %s 1 8 %d)", CoqStr(sh.Method), c05RecBound))
	l.Heavy = true
	return l
}

// the same recursion without a base case, observed under a reduced Go stack limit
func c05LeafRecRunaway(sh c05RecShape) c05Leaf {
	l := c05LeafFault("recursion-through:"+sh.Method, "func rf(n) "+sh.Body+"; ", "rf(a)",
		fmt.Sprintf("(FRecThrough %s 1 8 4611686018427387904)", CoqStr(sh.Method)))
	// the stack must hold the levels the guard lets through (about 3300 through map): 128 MB; a method that
	// forgets the depth of its callers dies there after some seconds
	l.MaxStack, l.D, l.Heavy = c05BigStack, c05BigStack/1024, true
	return l
}

func c05ShapeOf(method string) c05RecShape {
	for _, sh := range c05RecShapes {
		if sh.Method == method {
			return sh
		}
	}
	panic("c05: no recursion shape " + method)
}

// runaway recursion on one storage whose body nests so many Go calls per level that the Go stack is
// exhausted before the 10000 slot guard fires (observed at a reduced stack limit)
func c05LeafDeepBodyRec() c05Leaf {
	k := 100
	l := c05LeafFault("recursion-deep-body", "func rd(n) "+strings.Repeat("1+(", k)+"rd(n+1)"+strings.Repeat(")", k)+"; ", "rd(a)",
		fmt.Sprintf("(FRecShared 0 1 %d)", k))
	l.MaxStack, l.D, l.Heavy = c05SmallStack, c05SmallStack/32, true
	return l
}

// the representative fault sources that are placed in every context
func c05Representatives() []c05Leaf {
	i1, i0, im1 := c05Find("1"), c05Find("0"), c05Find("-1")
	return []c05Leaf{
		c05LeafFault("value", "", "a+b", "FValue"),
		c05LeafOp("%", i1, i0),
		c05LeafOp("<<", i1, im1),
		c05LeafOp("!=", i1, c05Find(`"a"`)),
		c05LeafOp("+", i1, c05Find("true")),
		c05LeafOp("~", c05Find("[1,2]"), c05Find("[[1],[2]]")),
		c05LeafOp("<", c05Find("[1,2]"), i1),
		c05LeafIndex(c05Find("[1,2]"), c05Find("2")),
		c05LeafMember(c05Find("{a:1}"), "zz"),
		c05LeafMethod(c05Find("[]"), "first", nil, true),
		c05LeafMethod(i1, "noSuchMethod", nil, false),
		c05LeafFault("closure-arg-count", "let k2=(p,q)->p; ", "k2(a)", "FBuiltinErr"),
		c05LeafFault("throw", "", `throw("t")`, "FThrow"),
		c05LeafFault("host-error", "", "hostErr(a)", "FHostErr"),
		c05LeafFault("host-panic", "", "hostPanic(a)", "FHostPanic"),
		c05LeafFault("host-runtime-error", "", "hostNil(a)", "FHostPanic"),
		c05LeafFault("guard-recursion", "func rg(n) rg(n+1)+1; ", "rg(a)", "(FRecShared 0 1 8)"),
	}
}

// ---------- contexts ----------

type c05Ctx struct {
	Name string
	Coq  string
	Tmpl string // %F = fault expression; mark(0) records the goroutine that runs the closure holding it
	Par  bool   // a stage is driven into parallel mode by the slow host function
	Gor  bool   // the closure holding the fault may run off the calling goroutine
}

// only the panic-focused representatives are placed in these contexts
func (c c05Ctx) focus() bool {
	return strings.Contains(c.Name, "accept-reject") || strings.HasPrefix(c.Name, "demand:") || strings.HasPrefix(c.Name, "try-demand:")
}

// demand contexts: the fault is raised while item i of the lazy list [10..15].map(..) is computed; the stages and
// the consumer behind it demand the first d items in the sequential lazy semantics (d = 6: all)
var c05DemandOf = map[string][2]int{}

func init() {
	src := func(i int) string {
		return fmt.Sprintf("[10,11,12,13,14,15].map(z->if z!=%d then z else let m=mark(0); let t=%%F; z)", 10+i)
	}
	add := func(name string, d, i int, tail string, try bool) {
		prog, coq, pre := src(i)+tail, "KDemand", "demand:"
		if try {
			prog, coq, pre = "try "+prog+" catch 4242", "KTryDemand", "try-demand:"
		}
		n := fmt.Sprintf("%s%s-fault-at-%d", pre, name, i)
		c05Contexts = append(c05Contexts, c05Ctx{n, fmt.Sprintf("(%s %d %d)", coq, d, i), prog, false, false})
		c05DemandOf[n] = [2]int{d, i}
	}
	for _, i := range []int{0, 2, 4} { // n > i, n = i, n < i: skip drops the value of a skipped item, never its error
		add("skip2-sum", 6, i, ".skip(2).sum()", false)
	}
	add("skip2-size", 6, 0, ".skip(2).size()", false)
	add("skip2-size", 6, 1, ".skip(2).size()", false)
	add("skip6-size", 6, 3, ".skip(6).size()", false)
	for _, i := range []int{1, 2, 3, 5} { // top(3) demands exactly three items
		add("top3-sum", 3, i, ".top(3).sum()", false)
	}
	for _, i := range []int{1, 3, 4} {
		add("top4-skip2-sum", 4, i, ".top(4).skip(2).sum()", false)
	}
	add("skip2-top2-sum", 4, 1, ".skip(2).top(2).sum()", false)
	add("skip2-top2-sum", 4, 4, ".skip(2).top(2).sum()", false)
	add("first", 1, 0, ".first()", false)
	add("first", 1, 1, ".first()", false)
	add("accept-rejecting-the-faulty-item", 6, 2, ".accept(y->y!=12).size()", false)
	add("compact", 6, 3, ".compact((p,q)->p=q).size()", false)
	for _, i := range []int{1, 2, 3} { // stops at index 2
		add("indexWhere-stops-at-2", 3, i, ".indexWhere(y->y=12)", false)
		add("present-stops-at-2", 3, i, ".present(y->y=12)", false)
	}
	add("index1", 6, 0, "[1]", false) // AccessList asks for the size: the whole list is evaluated
	add("index1", 6, 4, "[1]", false)
	add("skip2-sum", 6, 0, ".skip(2).sum()", true)
	add("skip2-sum", 6, 4, ".skip(2).sum()", true)
	add("top3-sum", 3, 1, ".top(3).sum()", true)
	add("top3-sum", 3, 4, ".top(3).sum()", true)
}

var c05Contexts = []c05Ctx{
	{"top", "KTop", "let m=mark(0); %F", false, false},
	{"closure", "KClosure", "let k=z->let m=mark(0); %F; k(0)", false, false},
	{"func", "KFunc", "func g(z) let m=mark(0); %F; g(0)", false, false},
	{"try", "KTry", "try let m=mark(0); %F catch 4242", false, false},
	{"try-closure-catch", "KTryClo", "try let m=mark(0); %F catch e->4242", false, false},
	{"try-in-closure", "KTryInClo", "let k=z->try let m=mark(0); %F catch 4242; k(0)", false, false},
	{"seq-map", "KSeqMap", "[1,2,3].map(z->let m=mark(0); let t=%F; z).sum()", false, false},
	{"seq-accept", "KSeqAccept", "[1,2,3].accept(z->let m=mark(0); let t=%F; true).size()", false, false},
	{"par-map", "KParMap", "numbers(40).map(z->if slow(z)<20 then 0 else let m=mark(0); let t=%F; 0).sum()", true, true},
	{"par-accept", "KParAccept", "numbers(40).accept(z->if slow(z)<20 then true else let m=mark(0); let t=%F; true).size()", true, true},
	{"par-map-try", "KParMapTry", "numbers(40).map(z->if slow(z)<20 then 0 else try let m=mark(0); %F catch 4242).size()", true, true},
	{"try-par-map", "KTryParMap", "try numbers(40).map(z->if slow(z)<20 then 0 else let m=mark(0); let t=%F; 0).sum() catch 4242", true, true},
	{"collector-map", "KCollMap", "numbers(40).map(z->slow(z)).map(y->if y<20 then 0 else let m=mark(0); let t=%F; 0).sum()", true, true},
	{"collector-reduce", "KCollReduce", "numbers(40).map(z->slow(z)).reduce((p,q)->if q<20 then 0 else let m=mark(0); let t=%F; 0)", true, true},
	{"try-collector-reduce", "KTryCollReduce", "try numbers(40).map(z->slow(z)).reduce((p,q)->if q<20 then 0 else let m=mark(0); let t=%F; 0) catch 4242", true, true},
	// list sizes at the boundary of MapAuto's decision (it measures items 1..11 and decides when it fetches the 13th): the
	// fault sits in the LAST item of a list of known size 12, 13 and 14 - with 13 items exactly one item is handed to a
	// worker and delivered by the collector (seeded/C05-h: a fast path for lists "too short to go parallel" tested size <= 13)
	{"par-map-size12", "KParMap", "numbers(12).map(z->if slow(z)<11 then 0 else let m=mark(0); let t=%F; 0).sum()", true, true},
	{"par-map-size13", "KParMap", "numbers(13).map(z->if slow(z)<12 then 0 else let m=mark(0); let t=%F; 0).sum()", true, true},
	{"par-map-size14", "KParMap", "numbers(14).map(z->if slow(z)<13 then 0 else let m=mark(0); let t=%F; 0).sum()", true, true},
	{"par-accept-size13", "KParAccept", "numbers(13).accept(z->if slow(z)<12 then true else let m=mark(0); let t=%F; true).size()", true, true},
	{"try-par-map-size13", "KTryParMap", "try numbers(13).map(z->if slow(z)<12 then 0 else let m=mark(0); let t=%F; 0).sum() catch 4242", true, true},
	{"collector-reduce-size13", "KCollReduce", "numbers(13).map(z->slow(z)).reduce((p,q)->if q<12 then 0 else let m=mark(0); let t=%F; 0)", true, true},
	{"collector-reduce-size14", "KCollReduce", "numbers(14).map(z->slow(z)).reduce((p,q)->if q<13 then 0 else let m=mark(0); let t=%F; 0)", true, true},
	{"merge-left", "KMergeLeft", "[1,2,3].combine((p,q)->let m=mark(0); let t=%F; p).merge([1,2],(p,q)->p<q).size()", false, true},
	{"merge-right", "KMergeRight", "[1,2].merge([1,2,3].combine((p,q)->let m=mark(0); let t=%F; p),(p,q)->p<q).size()", false, true},
	{"merge-left-map", "KMergeLeftMap", "[1,2,3].map(z->let m=mark(0); let t=%F; z).merge([1,2],(p,q)->p<q).size()", false, true},
	{"merge-less", "KMergeLess", "[1,2,3].merge([1,2],(p,q)->let m=mark(0); let t=%F; p<q).size()", false, false},
	{"multiuse", "KMultiUse", "[1,2,3].multiUse({u:l->let m=mark(0); let t=%F; l.size(), v:l->l.size()}).u", false, true},
	{"multiuse-inner-map", "KMultiUseInner", "[1,2,3].multiUse({u:l->l.map(z->let m=mark(0); let t=%F; z).sum(), v:l->l.size()}).u", false, true},
	// the fault sits in a still-lazy list nested in what a consumer, a closure or the program returns
	{"multiuse-returns-map-lazy", "KMuRetMapLazy", "[1,2,3].multiUse({u:l->{x:l.map(z->let m=mark(0); let t=%F; z)}, v:l->l.size()})", false, true},
	{"multiuse-returns-list-lazy", "KMuRetListLazy", "[1,2,3].multiUse({u:l->[l.map(z->let m=mark(0); let t=%F; z)], v:l->l.size()})", false, true},
	{"multiuse-returns-map-map-lazy", "KMuRetMapMapLazy", "[1,2,3].multiUse({u:l->{x:{y:l.map(z->let m=mark(0); let t=%F; z)}}, v:l->l.size()})", false, true},
	{"try-multiuse-returns-map-lazy", "KTryMuRetMapLazy", "try [1,2,3].multiUse({u:l->{x:l.map(z->let m=mark(0); let t=%F; z)}, v:l->l.size()}) catch 4242", false, true},
	{"map-returns-lazy", "KMapRetLazy", "[1,2,3].map(z->{x:[z].map(y->let m=mark(0); let t=%F; y)})", false, false},
	{"closure-returns-lazy", "KCloRetLazy", "let k=z->{x:[[z].map(y->let m=mark(0); let t=%F; y)]}; k(0)", false, false},
	{"top-map-lazy", "KTopMapLazy", "{x:[1,2,3].map(z->let m=mark(0); let t=%F; z)}", false, false},
	{"top-list-lazy", "KTopListLazy", "[[1,2,3].map(z->let m=mark(0); let t=%F; z)]", false, false},
	{"top-map-map-lazy", "KTopMapMapLazy", "{x:{y:[1,2,3].map(z->let m=mark(0); let t=%F; z)}}", false, false},
	// a parallel accept that rejects items (or a parallel map followed by an accept), then a consumer holding the
	// fault at the first items that are delivered by the collecting goroutine; only the panic-focused sources
	{"par-accept-reject-1-reduce", "KAccDown", "numbers(40).accept(z->slow(z)>=1).reduce((p,q)->if q<12 then 0 else let m=mark(0); let t=%F; 0)", true, true},
	{"par-accept-reject-6-reduce", "KAccDown", "numbers(40).accept(z->slow(z)>=6).reduce((p,q)->if q<12 then 0 else let m=mark(0); let t=%F; 0)", true, true},
	{"par-accept-reject-11-reduce", "KAccDown", "numbers(40).accept(z->slow(z)>=11).reduce((p,q)->if q<12 then 0 else let m=mark(0); let t=%F; 0)", true, true},
	{"par-accept-reject-12-reduce", "KAccDown", "numbers(40).accept(z->slow(z)>=12).reduce((p,q)->if q<12 then 0 else let m=mark(0); let t=%F; 0)", true, true},
	{"par-accept-reject-20-reduce", "KAccDown", "numbers(40).accept(z->slow(z)>=20).reduce((p,q)->if q<12 then 0 else let m=mark(0); let t=%F; 0)", true, true},
	{"par-accept-reject-odd-reduce", "KAccDown", "numbers(40).accept(z->slow(z)%2=1).reduce((p,q)->if q<12 then 0 else let m=mark(0); let t=%F; 0)", true, true},
	{"par-accept-reject-1-visit", "KAccDown", "numbers(40).accept(z->slow(z)>=1).visit(0,(v,e)->if e<12 then 0 else let m=mark(0); let t=%F; 0)", true, true},
	{"par-accept-reject-1-present", "KAccDown", "numbers(40).accept(z->slow(z)>=1).present(e->if e<12 then false else let m=mark(0); let t=%F; false)", true, true},
	{"par-accept-reject-1-map", "KAccDownMap", "numbers(40).accept(z->slow(z)>=1).map(y->if y<12 then 0 else let m=mark(0); let t=%F; 0).sum()", true, true},
	{"par-accept-reject-12-visit", "KAccDown", "numbers(40).accept(z->slow(z)>=12).visit(0,(v,e)->if e<12 then 0 else let m=mark(0); let t=%F; 0)", true, true},
	{"par-accept-reject-12-present", "KAccDown", "numbers(40).accept(z->slow(z)>=12).present(e->if e<12 then false else let m=mark(0); let t=%F; false)", true, true},
	{"par-accept-reject-12-map", "KAccDownMap", "numbers(40).accept(z->slow(z)>=12).map(y->if y<12 then 0 else let m=mark(0); let t=%F; 0).sum()", true, true},
	{"par-accept-reject-odd-visit", "KAccDown", "numbers(40).accept(z->slow(z)%2=1).visit(0,(v,e)->if e<12 then 0 else let m=mark(0); let t=%F; 0)", true, true},
	{"par-accept-reject-odd-present", "KAccDown", "numbers(40).accept(z->slow(z)%2=1).present(e->if e<12 then false else let m=mark(0); let t=%F; false)", true, true},
	{"par-accept-reject-odd-map", "KAccDownMap", "numbers(40).accept(z->slow(z)%2=1).map(y->if y<12 then 0 else let m=mark(0); let t=%F; 0).sum()", true, true},
	{"try-par-accept-reject-1-reduce", "KTryAccDown", "try numbers(40).accept(z->slow(z)>=1).reduce((p,q)->if q<12 then 0 else let m=mark(0); let t=%F; 0) catch 4242", true, true},
	{"try-par-accept-reject-1-map", "KTryAccDownMap", "try numbers(40).accept(z->slow(z)>=1).map(y->if y<12 then 0 else let m=mark(0); let t=%F; 0).sum() catch 4242", true, true},
	{"par-map-accept-reject-1-reduce", "KAccDown", "numbers(40).map(z->slow(z)).accept(y->y>=1).reduce((p,q)->if q<12 then 0 else let m=mark(0); let t=%F; 0)", true, true},
	{"try-par-map-accept-reject-1-reduce", "KTryAccDown", "try numbers(40).map(z->slow(z)).accept(y->y>=1).reduce((p,q)->if q<12 then 0 else let m=mark(0); let t=%F; 0) catch 4242", true, true},
	{"try-par-accept-reject-12-reduce", "KTryAccDown", "try numbers(40).accept(z->slow(z)>=12).reduce((p,q)->if q<12 then 0 else let m=mark(0); let t=%F; 0) catch 4242", true, true},
	{"try-par-accept-reject-12-map", "KTryAccDownMap", "try numbers(40).accept(z->slow(z)>=12).map(y->if y<12 then 0 else let m=mark(0); let t=%F; 0).sum() catch 4242", true, true},
	{"par-map-accept-reject-12-reduce", "KAccDown", "numbers(40).map(z->slow(z)).accept(y->y>=12).reduce((p,q)->if q<12 then 0 else let m=mark(0); let t=%F; 0)", true, true},
	{"try-par-map-accept-reject-12-reduce", "KTryAccDown", "try numbers(40).map(z->slow(z)).accept(y->y>=12).reduce((p,q)->if q<12 then 0 else let m=mark(0); let t=%F; 0) catch 4242", true, true},
	{"try-multiuse", "KTryMultiUse", "try [1,2,3].multiUse({u:l->let m=mark(0); let t=%F; l.size(), v:l->l.size()}).u catch 4242", false, true},
}

// fault sources that are faults by construction: host functions, throw, runaway recursion
func c05SurelyFaulting(l c05Leaf) bool {
	return strings.HasPrefix(l.Coq, "(LFault ") && !strings.Contains(l.Coq, "FValue") && !strings.Contains(l.Coq, "FRecThrough") && !strings.Contains(l.Coq, "FDeepData")
}

func c05CtxByName(n string) c05Ctx {
	for _, c := range c05Contexts {
		if c.Name == n {
			return c
		}
	}
	panic("c05: no context " + n)
}

// ---------- cases ----------

type c05Case struct {
	Leaf  c05Leaf `json:"leaf"`
	Ctx   string  `json:"ctx"`
	Procs int     `json:"procs"`
}

func (c c05Case) prog() string {
	return c.Leaf.Prelude + strings.Replace(c05CtxByName(c.Ctx).Tmpl, "%F", c.Leaf.Expr, 1)
}

func (c c05Case) signature() string {
	src := c.Leaf.Src
	if strings.HasPrefix(src, "recursion-through:") {
		return "recursion-through-fresh-stack/" + strings.TrimPrefix(src, "recursion-through:")
	}
	if strings.HasPrefix(src, "recursion-deep-body") {
		return src + "/any"
	}
	if strings.HasPrefix(src, "deep-data:") {
		return "deep-data/" + strings.TrimPrefix(src, "deep-data:")
	}
	return src + "/" + c.Ctx
}

func (c c05Case) heavy() bool {
	ctx := c05CtxByName(c.Ctx)
	return c.Leaf.Heavy || ctx.Gor || ctx.Par || strings.HasPrefix(c.Leaf.Src, "host-") || strings.Contains(c.Leaf.Src, "recursion")
}

type c05Obs struct {
	Class   string // val catch err died skipped
	Par     bool
	Detail  string
	Switch  string // for contexts that drive a stage into parallel mode: happened / missed / unknown
	SkipWhy string
}

var c05DeathRe = regexp.MustCompile(`(?m)^(panic: .*|fatal error: .*|runtime: goroutine stack exceeds.*)$`)

// CPU time the last worker process used (read only by the sequential retry loop)
var c05LastCPU float64

// a case run alone that is still without a result after its time limit and has used at least this much CPU time
// was computing, not starved by other processes: a runaway computation, reported like a dead process
const c05RunawayCPU = 45.0

// run one batch of cases (same GOMAXPROCS, same stack limit) in one worker process
func c05RunBatch(cases []c05Case, ids []int, timeout time.Duration) (map[int]c05Result, string, bool) {
	jobs := make([]c05Job, len(cases))
	for i, c := range cases {
		jobs[i] = c05Job{ID: ids[i], Prog: c.prog(), ArgTexts: c.Leaf.Args}
	}
	in, _ := json.Marshal(jobs)
	ctx, cancel := context.WithTimeout(context.Background(), timeout)
	defer cancel()
	self := os.Getenv("P2H")
	if self == "" {
		self = os.Args[0]
	}
	cmd := exec.CommandContext(ctx, self, "c05-worker")
	cmd.Env = append(os.Environ(), fmt.Sprintf("GOMAXPROCS=%d", cases[0].Procs), "GOTRACEBACK=single")
	if cases[0].Leaf.MaxStack > 0 {
		cmd.Env = append(cmd.Env, fmt.Sprintf("C05_MAXSTACK=%d", cases[0].Leaf.MaxStack))
	}
	cmd.Stdin = bytes.NewReader(in)
	var out, errb bytes.Buffer
	cmd.Stdout = &out
	cmd.Stderr = &errb
	cmd.Run()
	timedOut := ctx.Err() != nil
	if cmd.ProcessState != nil {
		c05LastCPU = (cmd.ProcessState.UserTime() + cmd.ProcessState.SystemTime()).Seconds()
	}
	res := map[int]c05Result{}
	for _, line := range strings.Split(out.String(), "\n") {
		if strings.TrimSpace(line) == "" {
			continue
		}
		var r c05Result
		if json.Unmarshal([]byte(line), &r) == nil {
			res[r.ID] = r
		}
	}
	death := ""
	if m := c05DeathRe.FindAllString(errb.String(), 3); len(m) > 0 {
		death = strings.Join(m, " | ")
	} else if !timedOut && len(res) < len(cases) {
		death = "worker exited without a result: " + strings.TrimSpace(errb.String())
		if len(death) > 300 {
			death = death[:300]
		}
	}
	return res, death, timedOut
}

func c05Observe(c c05Case, r c05Result, have bool, death string, timedOut bool) c05Obs {
	ctx := c05CtxByName(c.Ctx)
	o := c05Obs{}
	switch {
	case have && (r.Class == "generr" || r.Class == "argerr"):
		o.Class, o.SkipWhy = "skipped", "not-an-evaluation:"+r.Class
		o.Detail = r.Detail
	case have && r.Forced && strings.HasPrefix(c.Ctx, "try"):
		// the program returned a lazy list out of the try expression; its evaluation failed afterwards
		o.Class, o.SkipWhy = "skipped", "lazy-result-of-try-fails-when-forced-later"
	case have:
		o.Class = r.Class
		if r.Class == "val" && r.Catch {
			o.Class = "catch"
		}
		o.Par = r.MarksOff > 0
		o.Detail = r.Detail
		if ctx.Par {
			switch {
			case r.MarksOff > 0:
				o.Switch = "happened"
			case r.MarksMain > 0:
				o.Switch = "missed"
			default:
				o.Switch = "closure-not-reached"
			}
		}
	case timedOut:
		o.Class, o.SkipWhy = "skipped", "timeout"
	default:
		o.Class = "died"
		o.Par = ctx.Gor // the marks of a dead process are lost; the model's answer does not depend on the bit
		o.Detail = death
		if ctx.Par {
			o.Switch = "unknown"
		}
	}
	return o
}

var c05Retried []string

type c05Out struct {
	c   c05Case
	obs c05Obs
	dur float64 // seconds the case's own worker process took (0 for batched cases)
}

// evaluate all cases: light ones in batches, heavy ones alone, 16 worker processes at a time;
// a batch whose process died or timed out is re-run case by case
func c05RunAll(cases []c05Case) []c05Out {
	outs := make([]c05Out, len(cases))
	type batch struct{ idx []int }
	var batches []batch
	light := map[string][]int{}
	for i, c := range cases {
		if c.heavy() {
			batches = append(batches, batch{[]int{i}})
		} else {
			k := fmt.Sprintf("%d/%d", c.Procs, c.Leaf.MaxStack)
			light[k] = append(light[k], i)
			if len(light[k]) == 40 {
				batches = append(batches, batch{light[k]})
				light[k] = nil
			}
		}
	}
	for _, k := range sortedKeys(light) {
		if len(light[k]) > 0 {
			batches = append(batches, batch{light[k]})
		}
	}
	// long running ones first
	weight := func(b batch) int {
		c := cases[b.idx[0]]
		w := 0
		if strings.Contains(c.Leaf.Src, "list.multiUse") || strings.Contains(c.Leaf.Src, "list.accept") {
			w += 4
		}
		if strings.Contains(c.Leaf.Src, "recursion") {
			w += 2
		}
		if c.Leaf.MaxStack > 0 {
			w++
		}
		return w
	}
	sort.SliceStable(batches, func(i, j int) bool { return weight(batches[i]) > weight(batches[j]) })
	sem := make(chan struct{}, 16)
	var wg sync.WaitGroup
	runOne := func(i int) {
		t1 := time.Now()
		defer func() { outs[i].dur = time.Since(t1).Seconds() }()
		limit := 40 * time.Second
		if strings.Contains(cases[i].Leaf.Src, "recursion") {
			limit = 150 * time.Second
		}
		res, death, to := c05RunBatch([]c05Case{cases[i]}, []int{i}, limit)
		r, have := res[i]
		outs[i] = c05Out{c: cases[i], obs: c05Observe(cases[i], r, have, death, to)}
	}
	// the two cases that suffer most from competing processes (about 2500 nested goroutines / 3300 nested
	// stages unwinding with wrapped errors) run before the pool starts, side by side
	veryHeavy := func(b batch) bool {
		src := cases[b.idx[0]].Leaf.Src
		return len(b.idx) == 1 && (src == "recursion-through:list.multiUse" || src == "recursion-through:list.accept")
	}
	var rest []batch
	for _, b := range batches {
		if veryHeavy(b) {
			wg.Add(1)
			go func(i int) { defer wg.Done(); runOne(i) }(b.idx[0])
		} else {
			rest = append(rest, b)
		}
	}
	wg.Wait()
	batches = rest
	for _, b := range batches {
		wg.Add(1)
		sem <- struct{}{}
		go func(b batch) {
			defer wg.Done()
			defer func() { <-sem }()
			if len(b.idx) == 1 {
				runOne(b.idx[0])
				return
			}
			cs := make([]c05Case, len(b.idx))
			for k, i := range b.idx {
				cs[k] = cases[i]
			}
			res, _, _ := c05RunBatch(cs, b.idx, 60*time.Second)
			for _, i := range b.idx {
				if r, ok := res[i]; ok {
					outs[i] = c05Out{c: cases[i], obs: c05Observe(cases[i], r, true, "", false)}
				} else {
					runOne(i)
				}
			}
		}(b)
	}
	wg.Wait()
	// a case that timed out while 16 processes competed is repeated alone before it is given up
	for i := range outs {
		if outs[i].obs.Class == "skipped" && outs[i].obs.SkipWhy == "timeout" {
			t1 := time.Now()
			defer func(i int) {
				c05Retried = append(c05Retried, fmt.Sprintf("%.1fs %s / %s", outs[i].dur, cases[i].Leaf.Src, cases[i].Ctx))
			}(i)
			defer func(i int) { outs[i].dur = time.Since(t1).Seconds() }(i)
			res, death, to := c05RunBatch([]c05Case{cases[i]}, []int{i}, 150*time.Second)
			r, have := res[i]
			if !have && to && c05LastCPU >= c05RunawayCPU {
				death, to = fmt.Sprintf("no result within 150 s when run alone, %.0f s of CPU time used: a computation that does not end (a bounded case takes a few seconds)", c05LastCPU), false
			}
			outs[i] = c05Out{c: cases[i], obs: c05Observe(cases[i], r, have, death, to)}
		}
	}
	return outs
}

// ---------- enumeration ----------

// arities of the static functions: found by asking the generator (a wrong count is a Generate error)
func c05StaticArities(fg *value.FunctionGenerator, name string) []int {
	var ok []int
	for n := 0; n <= 3; n++ {
		exp := name + "(" + strings.Join(c05ArgNames[:n], ",") + ")"
		if _, _, err := value.New().Generate(exp, c05ArgNames[:n]...); err == nil {
			ok = append(ok, n)
		}
	}
	return ok
}

var c05ModelledStatics = map[string]bool{"throw": true, "string": true, "isFloat": true, "isInt": true, "float": true, "int": true,
	"abs": true, "sign": true, "sqr": true, "min": true, "max": true, "binAnd": true, "binOr": true, "numbers": true}

// argument tuples of length n over the kinds: all for n <= 1, all pairs for n = 2 when full, else a sample
func c05ArgTuples(r *Rng, n int, sample int) [][]c05Val {
	small := func(k string) c05Val {
		vs := c05ByKind(k)
		if k == "int" {
			return []c05Val{c05Find("2"), c05Find("0"), c05Find("-1")}[r.Pick(3)]
		}
		return vs[r.Pick(len(vs))]
	}
	var res [][]c05Val
	switch n {
	case 0:
		return [][]c05Val{{}}
	case 1:
		for _, k := range c05Kinds {
			res = append(res, []c05Val{small(k)})
		}
		if sample <= 0 {
			res = append(res, []c05Val{c05Find("0")}, []c05Val{c05Find("-1")})
		}
		return res
	}
	if sample <= 0 {
		var rec func(pre []c05Val)
		rec = func(pre []c05Val) {
			if len(pre) == n {
				res = append(res, append([]c05Val{}, pre...))
				return
			}
			for _, k := range c05Kinds {
				rec(append(pre, small(k)))
			}
		}
		rec(nil)
		return res
	}
	for i := 0; i < sample; i++ {
		t := make([]c05Val, n)
		for j := range t {
			t[j] = small(c05Kinds[r.Pick(len(c05Kinds))])
		}
		res = append(res, t)
	}
	return res
}

// every fault source of the enumeration (at the top level these are all run; in the other contexts a sample)
func c05AllLeaves(r *Rng, thorough bool) []c05Leaf {
	var ls []c05Leaf
	// every binary operator x operand-kind pair, representative values
	for _, op := range c05BinOps {
		for _, ka := range c05Kinds {
			for _, kb := range c05Kinds {
				ls = append(ls, c05LeafOp(op, c05Rep(ka), c05Rep(kb)))
			}
		}
	}
	// integer boundaries for the arithmetic operators
	as := []string{"1", "-9223372036854775807-1", "9223372036854775807"}
	bs := []string{"0", "-1", "64", "-9223372036854775807-1"}
	if thorough {
		as = []string{"0", "1", "-1", "2", "63", "64", "65", "-9223372036854775807-1", "9223372036854775807"}
		bs = as
	}
	for _, op := range []string{"+", "-", "*", "/", "%", "<<", ">>", "^"} {
		for _, a := range as {
			for _, b := range bs {
				ls = append(ls, c05LeafOp(op, c05Find(a), c05Find(b)))
			}
		}
	}
	// float and string boundaries for comparison and arithmetic
	for _, op := range []string{"+", "-", "*", "/", "<", "=", "~"} {
		fa := []string{"0.0", `""`, "[]", `{a:1,b:"x"}`}
		fb := []string{"-1.5", `"a"`, "[[1],[2]]", "{a:1}"}
		if thorough {
			fa = []string{"0.0", "0.5", `""`, `"ab"`, "[]", `["a",1]`, `{a:1,b:"x"}`}
			fb = []string{"0.0", "-1.5", `""`, `"a"`, "[]", "[[1],[2]]", "{a:1}"}
		}
		for _, a := range fa {
			for _, b := range fb {
				ls = append(ls, c05LeafOp(op, c05Find(a), c05Find(b)))
			}
		}
	}
	for _, op := range []string{"-", "!"} {
		for _, v := range c05Pool {
			ls = append(ls, c05LeafUnary(op, v))
		}
	}
	for _, l := range []string{"[1,2]", "[]", `"ab"`, "{a:1}", "1"} {
		for _, i := range []string{"0", "1", "2", "-1", "9223372036854775807", "0.5", `"a"`, "true"} {
			ls = append(ls, c05LeafIndex(c05Find(l), c05Find(i)))
		}
	}
	for _, m := range []string{"{a:1}", `{a:1,b:"x"}`, "[1,2]", "1", `"a"`, "x->x"} {
		for _, k := range []string{"a", "b", "zz"} {
			ls = append(ls, c05LeafMember(c05Find(m), k))
		}
	}
	// every static function and every method of value.New(), argument kinds by arity
	fg := value.New()
	docs := fg.GetDocumentation()
	typeKind := map[string]string{"int": "int", "float": "float", "string": "str", "bool": "bool", "list": "list", "map": "map", "closure": "func"}
	for _, td := range docs {
		if td.Name == "global" {
			for _, fd := range td.Functions {
				for _, n := range c05StaticArities(fg, fd.Name) {
					sample := 0
					if n == 2 && !thorough {
						sample = 8
					}
					if n >= 3 {
						sample = 12
					}
					for _, t := range c05ArgTuples(r, n, sample) {
						ls = append(ls, c05LeafStatic(fd.Name, t, c05ModelledStatics[fd.Name]))
					}
				}
			}
			continue
		}
		kind, ok := typeKind[td.Name]
		if !ok {
			continue
		}
		for _, fd := range td.Functions {
			for ri, recv := range c05ByKind(kind) {
				if (kind == "int" && recv.Text != "2" && recv.Text != "0") || (!thorough && kind != "int" && ri >= 1 && !(kind == "list" && ri == 1)) {
					continue
				}
				fu, err := fg.GetMethod(mustEval(recv.Text, nil), fd.Name)
				if err != nil {
					continue
				}
				n := fu.Args - 1 // Args counts the receiver
				if fu.Args < 0 {
					n = 1
				}
				if n > 2 {
					n = 2 // more arguments than the pool names: the call fails its argument count check
				}
				sample := 0
				if !thorough {
					sample = 5
				}
				for _, t := range c05ArgTuples(r, n, sample) {
					ls = append(ls, c05LeafMethod(recv, fd.Name, t, true))
				}
				// wrong argument count
				ls = append(ls, c05LeafMethod(recv, fd.Name, []c05Val{c05Find("2"), c05Find("2")}[:(n+1)%3], true))
			}
		}
	}
	// the string methods of coq/Sem/StrLib.v on richer receivers (blanks, lines, numerals, non-ASCII)
	sv := func(s string) c05Val { return c05Val{"\"" + pgEscapeStr(s) + "\"", "str", c05CoqStrV(s)} }
	for ri, recv := range []string{" a,b,,c ", "k: v\nhead\n x \ny\n\nz", "a\u00e9,\u20acb", "-12", "9223372036854775808", "AbC"} {
		rv := sv(recv)
		for _, m := range []string{"trim", "toLower", "toUpper", "toInt"} {
			ls = append(ls, c05LeafMethod(rv, m, nil, true))
		}
		if ri >= 3 && !thorough {
			continue
		}
		for _, m := range []string{"contains", "indexOf", "split", "behind", "behindList"} {
			for _, a := range []c05Val{sv(","), sv(""), sv("head"), sv("\u00e9"), c05Find("2"), c05Find("[]")} {
				ls = append(ls, c05LeafMethod(rv, m, []c05Val{a}, true))
			}
		}
		for _, t := range [][]c05Val{{c05Find("1"), c05Find("2")}, {c05Find("-1"), c05Find("0")}, {c05Find("64"), c05Find("1")}, {c05Find("0"), c05Find("9223372036854775807")},
			{sv("1"), c05Find("2")}, {c05Find("1"), c05Find("true")}} {
			ls = append(ls, c05LeafMethod(rv, "cut", t, true))
		}
		for _, t := range [][]c05Val{{sv(","), sv(";")}, {sv(""), sv("-")}, {sv("b"), sv("")}, {sv(","), c05Find("2")}, {c05Find("2"), sv(",")}} {
			ls = append(ls, c05LeafMethod(rv, "replace", t, true))
		}
	}
	return ls
}

// ---------- the run ----------

func cmdC05(seed int64, tier, outDir string) {
	r := NewRng(seed)
	sum := NewSummary("C05", seed, tier)
	sum.Rule = "one program per case = (fault source) placed in (context), evaluated by the real generated function in its own worker process under GOMAXPROCS in {1,2,16}; fault sources: every binary operator x operand-kind pair (7 kinds) + integer/float/string/list boundaries, unary operators, index and member access, every static function and every method of value.New() (names and arities read from the generator) x argument kinds, host function that panics / hits a Go runtime error / returns an error, throw, closure called with a wrong argument count, runaway recursion on one storage, through fresh storages, and with a deep body; contexts: " + fmt.Sprint(len(c05Contexts)) + " (top, closure, func, try/catch x3, sequential and forced-parallel map/accept, downstream of a parallel stage, merge operands and less, multiUse consumers); non-trivial = the case is an evaluation (not a Generate error) whose fault source is not a plain value; distinct by (fault source incl. operand kinds and values, context)"
	cw := NewCaseWriter(outDir, "From P2 Require Import Base.Prelude Sem.Num Sem.Syntax Conc.Crash Run.C05Run.", "c05_case", "c05_id", "c05_im", "c05_is", 250)

	var cases []c05Case
	if optReplay != "" {
		var c c05Case
		if err := json.Unmarshal(loadReplayCase(), &c); err != nil {
			fatal("replay case: %v", err)
		}
		cases = []c05Case{c}
	} else {
		thorough := tier == "thorough"
		procs := []int{1, 2, 16}
		reps := c05Representatives()
		// corpus first: the inputs that killed the process / escaped try-catch before the repairs, and the recorded findings
		for _, cn := range []string{"par-map", "par-accept", "collector-map", "collector-reduce", "merge-left", "merge-right", "merge-left-map", "multiuse", "multiuse-inner-map", "try", "try-in-closure"} {
			for _, l := range reps {
				if l.Src == "host-panic" || l.Src == "guard-recursion" {
					cases = append(cases, c05Case{l, cn, 16})
				}
			}
		}
		// (the runaway forms are expensive since the repair: about 3300 levels of wrapped errors; thorough runs them in
		// the goroutine contexts as well)
		rcs := []string{"top", "try"}
		if thorough {
			rcs = []string{"top", "try", "par-map", "multiuse"}
		}
		for _, cn := range rcs {
			cases = append(cases, c05Case{c05LeafRecRunaway(c05ShapeOf("list.map")), cn, 2})
		}
		if thorough {
			cases = append(cases, c05Case{c05LeafRecRunaway(c05ShapeOf("list.accept")), "top", 2}, c05Case{c05LeafRecRunaway(c05ShapeOf("list.multiUse")), "top", 2})
		}
		cases = append(cases, c05Case{c05LeafDeepBodyRec(), "top", 2}, c05Case{c05LeafDeepBodyRec(), "try", 16})
		// recursion through every closure-taking built-in, to a depth the guard must stop
		for i, sh := range c05RecShapes {
			cases = append(cases, c05Case{c05LeafRecBounded(sh), "top", procs[i%3]})
		}
		// data made deep by an ordinary loop, then one observer
		for i, sh := range c05DeepShapes {
			if sh.Quick || thorough {
				cases = append(cases, c05Case{c05LeafDeep(sh, sh.N), "top", procs[i%3]})
			}
			if thorough && !sh.Deep && sh.N >= 100000 {
				for _, n := range []int{1000, 10000, 300000} {
					cases = append(cases, c05Case{c05LeafDeep(sh, n), "top", procs[(i+1)%3]})
				}
			}
		}
		cases = append(cases, c05Case{c05LeafClosureNest(20000), "top", 2}, c05Case{c05LeafClosureNest(20000), "try", 16})
		for i, sh := range c05MixedShapes() {
			cases = append(cases, c05Case{c05LeafMixed(sh, false), "top", procs[i%3]})
			if sh.Between == 999 && i%2 == 0 {
				cases = append(cases, c05Case{c05LeafMixed(sh, false), "try", procs[(i+1)%3]})
			}
		}
		// representatives x every context x GOMAXPROCS (panic-class sources under all three settings)
		k := 0
		for _, l := range reps {
			for _, ctx := range c05Contexts {
				if ctx.focus() {
					switch {
					case l.Src == "host-panic":
						cases = append(cases, c05Case{l, ctx.Name, 2}, c05Case{l, ctx.Name, 16})
					case l.Src == "value" || l.Src == "host-error" || l.Src == "host-runtime-error" || l.Src == "guard-recursion" || strings.HasPrefix(l.Src, "op:%"):
						cases = append(cases, c05Case{l, ctx.Name, procs[k%3]})
						k++
					}
					continue
				}
				all := thorough || l.Src == "host-panic"
				if ctx.Gor && all {
					for _, p := range procs {
						cases = append(cases, c05Case{l, ctx.Name, p})
					}
				} else {
					cases = append(cases, c05Case{l, ctx.Name, procs[k%3]})
					k++
				}
			}
		}
		// every fault source of the enumeration at the top level and inside try/catch
		leaves := c05AllLeaves(r, thorough)
		for i, l := range leaves {
			cases = append(cases, c05Case{l, "top", procs[i%3]})
			if thorough || i%6 == 0 {
				cases = append(cases, c05Case{l, "try", procs[(i+1)%3]})
			}
		}
		// a sample of the full product
		n := 60 * optBoost
		if thorough {
			n = 6000 * optBoost
		}
		for i := 0; i < n; i++ {
			cases = append(cases, c05Case{leaves[r.Pick(len(leaves))], c05Contexts[r.Pick(len(c05Contexts))].Name, procs[r.Pick(3)]})
		}
	}

	// the corpus comes first; later duplicates of the same (source, arguments, context, GOMAXPROCS) are dropped
	seen := map[string]bool{}
	uniq := cases[:0]
	for _, c := range cases {
		k := fmt.Sprint(c.Leaf.Src, c.Leaf.Args, c.Leaf.Prelude, c.Leaf.Expr, c.Ctx, c.Procs)
		if !seen[k] {
			seen[k] = true
			uniq = append(uniq, c)
		}
	}
	cases = uniq
	// every closure-taking built-in must have a recursion shape
	if optReplay == "" {
		have := map[string]bool{}
		for _, sh := range c05RecShapes {
			have[sh.Method] = true
		}
		for _, m := range c05ClosureTakers() {
			if !have[m] {
				fatal("c05: the closure-taking built-in %s has no recursion shape in c05RecShapes (harness/c05.go): add one", m)
			}
		}
	}
	t0 := time.Now()
	outs := c05RunAll(cases)
	if optReplay == "" {
		// second phase: where the guard did not stop the bounded recursion, the runaway recursion is observed under
		// a small Go stack (multiUse starts a goroutine per level: it exhausts memory, not one stack - not run)
		var extra []c05Case
		for _, o := range outs {
			if strings.HasPrefix(o.c.Leaf.Src, "recursion-through:") && o.c.Leaf.MaxStack == 0 && o.obs.Class == "val" {
				m := strings.TrimPrefix(o.c.Leaf.Src, "recursion-through:")
				if strings.HasPrefix(m, "mixed:") {
					for _, sh := range c05MixedShapes() {
						// (one runaway form per forking method is enough to show the death)
						if sh.Method == m && sh.Hop != "list.multiUse" && sh.Between == 999 && strings.HasPrefix(m, "mixed:999-direct-then") {
							extra = append(extra, c05Case{c05LeafMixed(sh, true), "top", 2}, c05Case{c05LeafMixed(sh, true), "try", 2})
						}
					}
				} else if m != "list.multiUse" {
					extra = append(extra, c05Case{c05LeafRecRunaway(c05ShapeOf(m)), "top", 2})
				}
			}
		}
		var extra2 []c05Case
		for _, c := range extra {
			k := fmt.Sprint(c.Leaf.Src, c.Leaf.Args, c.Leaf.Prelude, c.Leaf.Expr, c.Ctx, c.Procs)
			if !seen[k] {
				seen[k] = true
				extra2 = append(extra2, c)
			}
		}
		outs = append(outs, c05RunAll(extra2)...)
	}
	sum.Extra["worker_wall_s"] = time.Since(t0).Seconds()
	sum.Extra["worker_processes_cases"] = len(cases)

	slow := append([]c05Out{}, outs...)
	sort.SliceStable(slow, func(i, j int) bool { return slow[i].dur > slow[j].dur })
	var slowest []string
	for i := 0; i < len(slow) && i < 40; i++ {
		slowest = append(slowest, fmt.Sprintf("%.1fs %s / %s", slow[i].dur, slow[i].c.Leaf.Src, slow[i].c.Ctx))
	}
	sum.Extra["slowest_cases"] = slowest
	sum.Extra["repeated_alone_after_timeout"] = c05Retried
	id := 0
	for _, o := range outs {
		id++
		c, obs := o.c, o.obs
		sum.Count("context", c.Ctx)
		sum.Count("gomaxprocs", fmt.Sprint(c.Procs))
		sum.Count("source_kind", strings.SplitN(strings.SplitN(c.Leaf.Src, "/", 2)[0], ":", 2)[0])
		sum.Count("observed_class", obs.Class)
		if obs.Switch != "" {
			sum.Count("parallel_switch", obs.Switch)
		}
		if obs.Class == "skipped" {
			sum.Skipped[obs.SkipWhy]++
			if sk, _ := sum.Extra["skipped_cases"].([]string); len(sk) < 40 {
				sum.Extra["skipped_cases"] = append(sk, obs.SkipWhy+": "+c.prog()+" "+fmt.Sprint(c.Leaf.Args)+" "+obs.Detail)
			}
			continue
		}
		sum.Evaluations++
		if c.Leaf.Src != "value" {
			sum.Nontriv(c.Leaf.Src + "|" + strings.Join(c.Leaf.Args, "|") + "|" + c.Ctx)
		}
		sig := c.signature()
		human := map[string]any{"program": c.prog(), "args": c.Leaf.Args, "gomaxprocs": c.Procs, "observed": obs.Class,
			"detail": obs.Detail, "closure_ran_off_the_calling_goroutine": obs.Par, "repro": c, "signature": sig}
		sum.Cases[fmt.Sprint(id)] = human
		if c.Leaf.Src != "value" && c.Ctx != "top" {
			sum.Sample(human)
		}
		coqObs := map[string]string{"val": "OVal", "catch": "OCatch", "err": "OErr", "died": "ODied"}[obs.Class]
		cw.Add(fmt.Sprintf("c05_mk %d %s %s %s %d %s", id, c.Leaf.Coq, c05CtxByName(c.Ctx).Coq, CoqBool(obs.Par), c.Leaf.D, coqObs))

		// the property, judged on the observation alone
		tryOuter := strings.HasPrefix(c.Ctx, "try")
		if obs.Class == "died" {
			sum.GoViolations = append(sum.GoViolations, GoViolation{CaseID: id, What: "the worker process evaluating the program died: " + obs.Detail,
				Sig: sig, Human: human, Expected: "a value or an error returned by Func.Eval", Observed: "process terminated"})
		} else if strings.HasPrefix(c.Leaf.Src, "recursion-through:") && c.Leaf.MaxStack == 0 && obs.Class == "val" {
			sum.GoViolations = append(sum.GoViolations, GoViolation{CaseID: id, What: fmt.Sprintf("the recursion guard did not fire: recursion through %s reached depth %d (every level on a fresh value stack); runaway recursion of this shape exhausts the Go stack or the memory",
				strings.TrimPrefix(c.Leaf.Src, "recursion-through:"), c05RecBound),
				Sig: sig, Human: human, Expected: "error: stack overflow; maybe a recursive function does not terminate", Observed: "value " + obs.Detail})
		} else if di, isDemand := c05DemandOf[c.Ctx]; isDemand && di[1] >= di[0] && obs.Class != "val" {
			sum.GoViolations = append(sum.GoViolations, GoViolation{CaseID: id, What: fmt.Sprintf("the fault is raised at item %d but only the first %d items are demanded (sequential lazy semantics): it must stay invisible; observed %s %s", di[1], di[0], obs.Class, obs.Detail),
				Sig: sig, Human: human, Expected: "a value", Observed: obs.Class})
		} else if isDemand && di[1] >= di[0] {
			// a value, as laziness demands
		} else if isDemand && tryOuter && obs.Class == "val" && c05SurelyFaulting(c.Leaf) {
			sum.GoViolations = append(sum.GoViolations, GoViolation{CaseID: id, What: fmt.Sprintf("the fault raised at item %d lies in the demanded prefix (%d items) but the try branch was taken: the fault was swallowed; value %s", di[1], di[0], obs.Detail),
				Sig: sig, Human: human, Expected: "the catch value 4242", Observed: "value " + obs.Detail})
		} else if (obs.Class == "val" || obs.Class == "catch") && !strings.Contains(c.Ctx, "try") && c05SurelyFaulting(c.Leaf) {
			sum.GoViolations = append(sum.GoViolations, GoViolation{CaseID: id, What: "the fault source is reached by the (deep) evaluation but no error came back: value " + obs.Detail,
				Sig: sig, Human: human, Expected: "an error returned by Func.Eval or by evaluating the lists of its result", Observed: "value " + obs.Detail})
		} else if obs.Class == "err" && tryOuter {
			sum.GoViolations = append(sum.GoViolations, GoViolation{CaseID: id, What: "try/catch with a constant catch value did not catch the fault: " + obs.Detail,
				Sig: sig, Human: human, Expected: "the catch value 4242", Observed: "error returned"})
		}
	}
	cw.Flush()
	sum.CaseFiles = cw.files
	sort.SliceStable(sum.GoViolations, func(i, j int) bool {
		return len(fmt.Sprint(sum.GoViolations[i].Human["program"])) < len(fmt.Sprint(sum.GoViolations[j].Human["program"]))
	})
	sum.Write(outDir)
}
