package main

// C16 - implicit-attribute mode equals explicit member access everywhere.
//
// For every generated program exp (harness/progen.go) all program arguments become attributes of ONE map
// argument; the harness computes, on its own surface tree, the qualified program exp' in which every free
// identifier that is not a constant, static function or local binding is written (m.x), and observes on the
// REAL implementation
//   GenerateWithMap(exp, m)   and   Generate(exp', m)      with the default optimizer and with SetOptimizer(nil)
// on the map in every representation harness/tree.go builds, plus the ASTs the real parser builds for both
// (optimizer off, constants printed as descriptions).
// Go-side oracle (independent of Coq): equal outcomes of the two functions on every map, equal ASTs.
// Coq: c16_im runs the parser model (Syn/Parse.v) with and without the AddMap layer on the real tokenizer's
// tokens; c16_is demands equal ASTs and the reference semantics (Sem/Ref.v) of the qualified tree.

import (
	"encoding/json"
	"fmt"
	"os"
	"regexp"
	"sort"
	"strings"

	"github.com/hneemann/parser2"
	"github.com/hneemann/parser2/funcGen"
	"github.com/hneemann/parser2/listMap"
	"github.com/hneemann/parser2/value"
)

func init() { register("c16", cmdC16) }

// name of the map argument; not in any name pool of the program generator (history mode alternates two names)
var c16Map = "mq"

// the generators a case runs on (default: the shared instances of c01Setup; history mode: the generators of the
// history), and the constants registered on them so far beyond value.New()'s own (newest first)
var c16On, c16Off *value.FunctionGenerator

type c16Const struct {
	Name  string `json:"name"`
	Value *Tree  `json:"value"`
}

var c16Extra []c16Const

func c16ExtraNames() []string {
	var ns []string
	for _, c := range c16Extra {
		ns = append(ns, c.Name)
	}
	return ns
}

func c16ExtraCoq() string {
	var ps []string
	for _, c := range c16Extra {
		ps = append(ps, "("+CoqStr(c.Name)+", "+c.Value.CoqValue()+")")
	}
	return CoqList(ps)
}

var c16Consts = []string{"pi", "true", "false"}

// ---------- qualification on the generator's own surface tree ----------

type c16Use struct {
	closures int  // number of enclosing closure literals
	inFunc   bool // inside a func body
	inArgLet bool // inside a let/func that sits in a call/method/list/map argument
}

type c16Qual struct {
	plain       bool // render an attribute as m.x without parentheses (a called attribute then reads as the method call m.x(...))
	uses        []c16Use
	staticValue bool // a static function name is used as a value (not as the callee of a call): Generate rejects it
}

func c16IsAttr(name string, bound []string) bool {
	if pgContains(bound, name) || name == c16Map || pgContains(c16Consts, name) || pgContains(c16ExtraNames(), name) || c01Statics[name] {
		return false
	}
	return true
}

// qualify returns the tree for the reference semantics (member nodes) and the tree for the renderer (the
// attribute written as the parenthesised text "(m.x)", so that a call of an attribute stays a call)
func (q *c16Qual) qualify(n *pgNode, bound []string, ctx c16Use) (*pgNode, *pgNode) {
	with := func(names ...string) []string { return append(append([]string{}, bound...), names...) }
	if n.K == "ident" {
		if c16IsAttr(n.Name, bound) {
			q.uses = append(q.uses, ctx)
			if q.plain {
				return pgNMember(pgNId(c16Map), n.Name), pgNId(c16Map + "." + n.Name)
			}
			return pgNMember(pgNId(c16Map), n.Name), pgNId("(" + c16Map + "." + n.Name + ")")
		}
		if c01Statics[n.Name] && !pgContains(bound, n.Name) {
			q.staticValue = true
		}
		return n, n
	}
	a, b := *n, *n
	a.Kids, b.Kids = make([]*pgNode, len(n.Kids)), make([]*pgNode, len(n.Kids))
	set := func(i int, bd []string, c c16Use) { a.Kids[i], b.Kids[i] = q.qualify(n.Kids[i], bd, c) }
	argCtx := ctx
	switch n.K {
	case "let":
		set(0, bound, ctx)
		set(1, with(n.Name), ctx)
	case "func":
		fc := ctx
		fc.inFunc = true
		set(0, with(append([]string{n.Name}, n.Ps...)...), fc)
		set(1, with(n.Name), ctx)
	case "clo":
		cc := ctx
		cc.closures++
		set(0, with(n.Ps...), cc)
	case "call", "method", "list", "map":
		for i, k := range n.Kids {
			if n.K == "call" && i == 0 && k.K == "ident" && c01Statics[k.Name] && !pgContains(bound, k.Name) {
				a.Kids[i], b.Kids[i] = k, k // static call: the callee is no value
				continue
			}
			c := argCtx
			if (i > 0 || n.K == "list" || n.K == "map") && pgIsBinder(k) {
				c.inArgLet = true
			}
			set(i, bound, c)
		}
	default:
		for i := range n.Kids {
			set(i, bound, ctx)
		}
	}
	return &a, &b
}

// ---------- explicit uses of the map argument mixed with implicit attribute uses ----------

// c16Explicit rewrites some free attribute uses of the program into forms that MENTION THE MAP ARGUMENT BY NAME
// (legal in implicit-attribute mode, and left as they are by qualification): mq.x, mq.get("x"), an alias
// let k = mq; k.x, mq returned from a closure, mq passed to a function, "x" ~ mq as a condition, mq.size()
// in an arithmetic term.  Returns the new tree and the forms used.
func c16Explicit(r *Rng, t *pgNode, intAttrs map[string]bool) (*pgNode, map[string]bool) {
	used := map[string]bool{}
	alias := false
	var walk func(n *pgNode, bound []string, callee bool) *pgNode
	walk = func(n *pgNode, bound []string, callee bool) *pgNode {
		with := func(names ...string) []string { return append(append([]string{}, bound...), names...) }
		if n.K == "ident" {
			if callee || !c16IsAttr(n.Name, bound) || !r.Chance(0.55) {
				return n
			}
			x := n.Name
			m := func() *pgNode { return pgNId(c16Map) }
			forms := []string{"member", "get", "alias", "closure-returns-map", "map-passed-to-function", "contains-condition"}
			if intAttrs[x] {
				forms = append(forms, "size-term")
			}
			f := forms[r.Pick(len(forms))]
			used[f] = true
			switch f {
			case "member":
				return pgNMember(m(), x)
			case "get":
				return pgNMethod("method", m(), "get", pgNStr(x))
			case "alias":
				alias = true
				return pgNMember(pgNId("k0"), x)
			case "closure-returns-map":
				return pgNMember(pgNCall("closure", pgNClo([]string{"u0"}, m()), pgNInt(0)), x)
			case "map-passed-to-function":
				return pgNCall("closure", pgNClo([]string{"p0"}, pgNMember(pgNId("p0"), x)), m())
			case "contains-condition":
				return pgNIf(pgNOp("~", pgNStr(x), m()), pgNId(x), pgNMember(m(), x))
			case "size-term":
				return pgNOp("+", pgNId(x), pgNOp("*", pgNInt(0), pgNMethod("method", m(), "size")))
			}
		}
		c := *n
		c.Kids = make([]*pgNode, len(n.Kids))
		for i, k := range n.Kids {
			bd := bound
			switch {
			case n.K == "let" && i == 1:
				bd = with(n.Name)
			case n.K == "func" && i == 0:
				bd = with(append([]string{n.Name}, n.Ps...)...)
			case n.K == "func" && i == 1:
				bd = with(n.Name)
			case n.K == "clo":
				bd = with(n.Ps...)
			}
			c.Kids[i] = walk(k, bd, n.K == "call" && i == 0)
		}
		return &c
	}
	out := walk(t, nil, false)
	if alias {
		out = pgNLet("k0", pgNId(c16Map), out)
	}
	return out, used
}

// ---------- the parser's ASTs with descriptive constants (for the parser model) ----------

var c16Dump *value.FunctionGenerator
var c16ConstructorRe = regexp.MustCompile(`\(A([A-Z])`)

func c16DumpSetup() {
	c16Dump = value.New()
	p := c16Dump.GetParser()
	p.SetOptimizer(nil)
	p.SetNumberParser(parser2.NumberParserFunc[value.Value](func(n string) (value.Value, error) {
		s, err := c03NumberParser(n)
		return value.String(s), err
	}))
	p.SetStringConverter(parser2.StringConverterFunc[value.Value](func(s string) value.Value { return value.String("s:" + s) }))
}

func c16ConstStr(v value.Value) string {
	switch c := v.(type) {
	case value.String:
		return string(c)
	case value.Float:
		return "c:pi"
	case value.Bool:
		if c {
			return "c:true"
		}
		return "c:false"
	}
	return fmt.Sprintf("?%T", v)
}

// parse text as GenerateWithMap (withMap) / Generate do; returns the tokens and the AST as a Coq term
func c16Parse(text string, withMap bool) (toks []parser2.VerifPTok, term string, err error) {
	defer func() {
		if r := recover(); r != nil {
			err = fmt.Errorf("panic in the parser: %v", r)
		}
	}()
	p := c16Dump.GetParser()
	toks = p.VerifParseTokens(text)
	idents := c16Dump.Identifier()
	if withMap {
		idents = idents.AddMap(c16Map)
	}
	idents = idents.AddArgs([]string{c16Map}, nil)
	ast, perr := p.Parse(text, idents)
	if perr != nil {
		return toks, "", perr
	}
	d := parser2.VerifParseDump(ast, c16ConstStr)
	return toks, c16ConstructorRe.ReplaceAllString(d, "(X$1"), nil
}

func c16CoqToks(toks []parser2.VerifPTok) string {
	var tl []string
	for _, k := range toks {
		tl = append(tl, fmt.Sprintf("(%d,%s)", k.Typ, CoqStr(k.Image)))
	}
	return CoqList(tl)
}

// ---------- running the implementation ----------

func c16RunImpl(fg *value.FunctionGenerator, text string, withMap bool, maps []*Tree) []c01ImplOut {
	res := make([]c01ImplOut, len(maps))
	var f funcGen.Func[value.Value]
	var gerr error
	func() {
		defer func() {
			if r := recover(); r != nil {
				gerr = fmt.Errorf("panic in Generate: %v", r)
			}
		}()
		if withMap {
			f, _, gerr = fg.GenerateWithMap(text, c16Map)
		} else {
			f, _, gerr = fg.Generate(text, c16Map)
		}
	}()
	for i, m := range maps {
		if gerr != nil {
			res[i] = c01ErrOut("generr", gerr)
			continue
		}
		res[i] = c01EvalForced(f, []value.Value{m.Build()})
	}
	return res
}

// ---------- one case ----------

type c16Program struct {
	P        *pgProgram `json:"program"`
	Reprs    []string   `json:"reprs"`              // representation of the map argument per tuple
	Explicit []string   `json:"explicit,omitempty"` // forms in which the program mentions the map argument by name
	Hist     *c16Hist   `json:"history,omitempty"`  // the case is one GenerateWithMap of this history (replay runs the whole history)
	Clo      *c16CloProg `json:"closure_program,omitempty"` // a program of the closure-attribute family
}

type c16Run struct {
	sum    *Summary
	cw     *CaseWriter
	lastWM [2][]c01ImplOut // outcomes of the last GenerateWithMap case (optimizer off, on)
}

func c16Signature(uses []c16Use) string {
	set := map[string]bool{}
	for _, u := range uses {
		switch {
		case u.closures > 0 && u.inFunc:
			set["closure in func"] = true
		case u.closures > 0:
			set["closure"] = true
		case u.inFunc:
			set["func"] = true
		case u.inArgLet:
			set["let-in-arg"] = true
		default:
			set["top"] = true
		}
	}
	ks := sortedKeys(set)
	if len(ks) == 0 {
		return "no attribute use"
	}
	return "attribute use in: " + strings.Join(ks, ", ")
}

func (r *c16Run) runCase(cp *c16Program, id int) {
	sum := r.sum
	p := cp.P
	q := &c16Qual{}
	tq, tr := q.qualify(p.T, nil, c16Use{})
	text := p.T.Render(pgPosLet)
	textQ := tr.Render(pgPosLet)
	if os.Getenv("P2H_TRACE") != "" {
		fmt.Fprintf(os.Stderr, "case %d: %s\n   => %s\n", id, text, textQ)
	}
	// the map argument: every program argument is an attribute
	var maps []*Tree
	for i, tu := range p.Tuples {
		maps = append(maps, &Tree{Kind: "map", Keys: p.ArgNames, Items: tu, Repr: cp.Reprs[i%len(cp.Reprs)]})
	}
	c01KeepMessages = false
	p.T.Walk(func(x *pgNode) {
		if x.K == "ident" && x.Name == "throw" {
			c01KeepMessages = true
		}
	})
	wmOff := c16RunImpl(c16Off, text, true, maps)
	wmOn := c16RunImpl(c16On, text, true, maps)
	plOff := c16RunImpl(c16Off, textQ, false, maps)
	plOn := c16RunImpl(c16On, textQ, false, maps)
	toks1, a1, err1 := c16Parse(text, true)
	toks2, a2, err2 := c16Parse(textQ, false)
	sum.Evaluations++

	excl := p.T.redeclares(nil) || q.staticValue
	if q.staticValue {
		sum.Count("exclusions", "a static function name is used as a value (both functions are rejected by Generate; the reference semantics has no such value)")
	}
	lazy := p.T.hasLazyStage()
	sig := c16Signature(q.uses)

	// ---- distribution
	sum.Count("stream", p.Stream)
	sum.Count("nodes", bucket(p.T.Count()))
	sum.Count("attributes_in_map", fmt.Sprint(len(p.ArgNames)))
	sum.Count("attribute_uses", bucket(len(q.uses)))
	if len(cp.Explicit) > 0 {
		sum.Count("mentions_map_by_name", "yes")
		for _, f := range cp.Explicit {
			sum.Count("explicit_map_use", f)
		}
		depth := 0
		var walkDepth func(n *pgNode, d int)
		walkDepth = func(n *pgNode, d int) {
			if n.K == "ident" && n.Name == c16Map && d > depth {
				depth = d
			}
			for _, k := range n.Kids {
				dd := d
				if n.K == "clo" || (n.K == "func" && k == n.Kids[0]) {
					dd++
				}
				walkDepth(k, dd)
			}
		}
		walkDepth(p.T, 0)
		sum.Count("explicit_map_use_max_closure_or_func_depth", fmt.Sprint(depth))
	} else {
		sum.Count("mentions_map_by_name", "no")
	}
	deep := false
	for _, u := range q.uses {
		d := fmt.Sprint(u.closures)
		if u.closures >= 3 {
			d = "3+"
		}
		sum.Count("attribute_use_closure_depth", d)
		if u.inFunc {
			sum.Count("attribute_use_context", "inside a func body")
		}
		if u.inArgLet {
			sum.Count("attribute_use_context", "inside a let/func within a call/literal argument")
		}
		if u.closures > 0 || u.inFunc {
			deep = true
		}
	}
	for _, n := range p.ArgNames {
		switch {
		case pgContains(c16Consts, n):
			sum.Count("attribute_name_collisions", "constant "+n)
		case c01Statics[n]:
			sum.Count("attribute_name_collisions", "static function "+n)
		}
	}
	shadowed := false
	p.T.Walk(func(x *pgNode) {
		names := append([]string{}, x.Ps...)
		if x.K == "let" || x.K == "func" {
			names = append(names, x.Name)
		}
		for _, n := range names {
			if pgContains(p.ArgNames, n) {
				shadowed = true
			}
		}
	})
	if shadowed {
		sum.Count("attribute_name_collisions", "local binding")
	}
	for i := range maps {
		sum.Count("map_representation", maps[i].Repr)
		sum.Count("outcome_withmap_optimizer_off", wmOff[i].Kind)
	}
	if err1 != nil {
		sum.Count("parse", "implicit-attribute text rejected")
	} else {
		sum.Count("parse", "ok")
	}
	if deep && wmOff[0].Kind != "generr" {
		sum.Nontriv(text)
	}

	// ---- the case for Coq
	var tuples []string
	var hmaps []any
	var hwm, hpl []string
	for i, m := range maps {
		tuples = append(tuples, fmt.Sprintf("([%s], %s, %s)", m.CoqValue(), wmOff[i].Coq, wmOn[i].Coq))
		hmaps = append(hmaps, m.Human())
		hwm = append(hwm, wmOff[i].Human+" | optimizer on: "+wmOn[i].Human)
		hpl = append(hpl, plOff[i].Human+" | optimizer on: "+plOn[i].Human)
	}
	opt := func(term string, err error) string {
		if err != nil {
			return "None"
		}
		return "(Some " + term + ")"
	}
	human := map[string]any{"text": text, "qualified": textQ, "map_name": c16Map, "maps": hmaps, "constants_registered_so_far": c16ExtraNames(),
		"GenerateWithMap": hwm, "Generate_qualified": hpl, "signature": sig, "repro": cp}
	if err1 != nil {
		human["parse_error_withmap"] = err1.Error()
	}
	if err2 != nil {
		human["parse_error_qualified"] = err2.Error()
	}
	sum.Cases[fmt.Sprint(id)] = human
	if deep {
		sum.Sample(map[string]any{"text": text, "qualified": textQ, "GenerateWithMap": hwm})
	}
	r.cw.Add(fmt.Sprintf("(%d, mkQ vops vunary vconsts vfuncs %s\n  %s\n  %s\n  %s %s %s %s,\n  (%s, %s, %s))", id, CoqStr(c16Map),
		c16CoqToks(toks1), c16CoqToks(toks2), tq.CoqT([]string{c16Map}, c01Statics), CoqBool(lazy), CoqBool(excl), c16ExtraCoq(),
		opt(a1, err1), opt(a2, err2), CoqList(tuples)))
	r.lastWM = [2][]c01ImplOut{wmOff, wmOn}

	// ---- Go-side oracle
	viol := func(what, exp, obs string) {
		sum.GoViolations = append(sum.GoViolations, GoViolation{CaseID: id, What: what, Sig: sig, Human: human, Expected: exp, Observed: obs})
	}
	switch {
	case (err1 == nil) != (err2 == nil):
		viol("the parser accepts only one of the implicit-attribute program and the qualified program", fmt.Sprint("qualified: ", err2), fmt.Sprint("implicit: ", err1))
	case err1 == nil && a1 != a2:
		viol("the AST of the implicit-attribute program differs from the AST of the qualified program (annotations included)", a2, a1)
	default:
		for i := range maps {
			if !c01SameOutcome(wmOff[i], plOff[i]) {
				viol("GenerateWithMap(exp) and Generate(qualified exp) give different outcomes (optimizer off)", "qualified: "+plOff[i].Human, "implicit: "+wmOff[i].Human)
				break
			}
			if !c01SameOutcome(wmOn[i], plOn[i]) {
				viol("GenerateWithMap(exp) and Generate(qualified exp) give different outcomes (default optimizer)", "qualified: "+plOn[i].Human, "implicit: "+wmOn[i].Human)
				break
			}
		}
	}
}

// ---------- histories of one generator ----------

// A history is a sequence of operations on ONE generator object: AddConstant(name, value) with names drawn from the
// attribute names of the programs (so that constants come to shadow attributes) and from the pool of local names,
// and GenerateWithMap(exp, mapName) with one or two alternating map names.  After every GenerateWithMap the case
// is checked as always, but ON THE GENERATOR OF THE HISTORY at that point: against Generate of the text qualified
// relative to the constants registered SO FAR, against the parser model with exactly these constants in the chain,
// and against the reference semantics with these constants in the environment.  Functions generated EARLIER are
// evaluated again after every later AddConstant: they must not change.
type c16HistOp struct {
	Const   *c16Const   `json:"const,omitempty"`
	Prog    *c16Program `json:"prog,omitempty"`
	MapName string      `json:"map_name,omitempty"`
}

type c16Hist struct {
	Ops []c16HistOp `json:"ops"`
}

func c16NewDump() *value.FunctionGenerator {
	old := c16Dump
	c16DumpSetup()
	d := c16Dump
	c16Dump = old
	return d
}

func c16ConstValue(like *Tree, k int) *Tree {
	switch like.Kind {
	case "int":
		return &Tree{Kind: "int", I: 1000 + k}
	case "float":
		return &Tree{Kind: "float", F: 0.5 + float64(k)}
	case "str":
		return &Tree{Kind: "str", S: fmt.Sprintf("const%d", k)}
	case "bool":
		return &Tree{Kind: "bool", B: !like.B}
	}
	return like
}

func (r *Rng) c16GenHistory(maxNodes int) *c16Hist {
	nOps := 4 + r.Pick(9)
	mapNames := []string{"mq"}
	if r.Chance(0.5) {
		mapNames = append(mapNames, "mr")
	}
	// the programs first: the constants are named after their attributes
	var progs []*c16Program
	for len(progs) < nOps {
		p := pgGenProgram(r, c01Statics, maxNodes)
		cp := &c16Program{P: p}
		for range p.Tuples {
			cp.Reprs = append(cp.Reprs, mapReprs[r.Pick(len(mapReprs))])
		}
		progs = append(progs, cp)
	}
	h := &c16Hist{}
	gi, k := 0, 0
	for i := 0; i < nOps; i++ {
		if i > 0 && r.Chance(0.4) {
			// AddConstant: mostly the name of an attribute of a program generated later (or earlier), else a local name
			var name string
			var like *Tree
			if r.Chance(0.75) {
				cp := progs[(gi+r.Pick(2))%len(progs)]
				j := r.Pick(len(cp.P.ArgNames))
				name, like = cp.P.ArgNames[j], cp.P.Tuples[0][j]
			} else {
				name, like = pgNamePool[r.Pick(len(pgNamePool))], &Tree{Kind: "int"}
			}
			if c01Statics[name] || name == "true" || name == "false" || pgContains(mapNames, name) {
				continue
			}
			k++
			h.Ops = append(h.Ops, c16HistOp{Const: &c16Const{Name: name, Value: c16ConstValue(like, k)}})
			continue
		}
		h.Ops = append(h.Ops, c16HistOp{Prog: progs[gi%len(progs)], MapName: mapNames[r.Pick(len(mapNames))]})
		gi++
	}
	return h
}

type c16Earlier struct {
	text    string
	mapName string
	fOn     funcGen.Func[value.Value]
	fOff    funcGen.Func[value.Value]
	maps    []*Tree
	then    [2][]c01ImplOut
	caseID  int
}

func (run *c16Run) runHistory(h *c16Hist, id *int) {
	sum := run.sum
	saveOn, saveOff, saveDump, saveMap, saveExtra := c16On, c16Off, c16Dump, c16Map, c16Extra
	defer func() { c16On, c16Off, c16Dump, c16Map, c16Extra = saveOn, saveOff, saveDump, saveMap, saveExtra }()
	c16On, c16Off, c16Dump, c16Extra = value.New(), value.New(), c16NewDump(), nil
	c16Off.SetOptimizer(nil)
	sum.Count("history_length", fmt.Sprint(len(h.Ops)))
	var earlier []c16Earlier
	usedMaps := map[string]bool{}
	for _, op := range h.Ops {
		if op.Const != nil {
			sum.Count("history_ops", "AddConstant")
			v := op.Const.Value.Build()
			c16On.AddConstant(op.Const.Name, v)
			c16Off.AddConstant(op.Const.Name, v)
			c16Dump.AddConstant(op.Const.Name, value.String("c:"+op.Const.Name))
			c16Extra = append([]c16Const{*op.Const}, c16Extra...)
			// functions generated earlier keep their meaning
			for _, e := range earlier {
				for i, m := range e.maps {
					now := [2]c01ImplOut{c01EvalForced(e.fOff, []value.Value{m.Build()}), c01EvalForced(e.fOn, []value.Value{m.Build()})}
					for o := 0; o < 2; o++ {
						if e.then[o][i].Kind != "generr" && !c01SameOutcome(e.then[o][i], now[o]) {
							human := map[string]any{"text": e.text, "map_name": e.mapName, "added_constant": op.Const.Name, "signature": "earlier function changed by AddConstant"}
							sum.GoViolations = append(sum.GoViolations, GoViolation{CaseID: e.caseID, What: "a function generated with GenerateWithMap changed its outcome after a later AddConstant",
								Sig: "earlier function changed by AddConstant", Human: human, Expected: e.then[o][i].Human, Observed: now[o].Human})
						}
					}
				}
				sum.Count("history_checks", "earlier function re-evaluated after AddConstant")
			}
			continue
		}
		sum.Count("history_ops", "GenerateWithMap")
		c16Map = op.MapName
		*id++
		cp := *op.Prog
		cp.Hist = h
		shadow := false
		for _, n := range cp.P.ArgNames {
			if pgContains(c16ExtraNames(), n) {
				shadow = true
			}
		}
		switch {
		case shadow && usedMaps[op.MapName]:
			sum.Count("history_generate", "a constant registered AFTER an earlier GenerateWithMap with this map name shadows an attribute")
		case shadow:
			sum.Count("history_generate", "a constant shadows an attribute (first use of the map name)")
		default:
			sum.Count("history_generate", "no constant named like an attribute")
		}
		sum.Count("history_constants_so_far", fmt.Sprint(len(c16Extra)))
		usedMaps[op.MapName] = true
		run.runCase(&cp, *id)
		// keep the functions for later re-evaluation
		e := c16Earlier{text: cp.P.T.Render(pgPosLet), mapName: op.MapName, then: run.lastWM, caseID: *id}
		func() {
			defer func() { recover() }()
			var err1, err2 error
			e.fOn, _, err1 = c16On.GenerateWithMap(e.text, op.MapName)
			e.fOff, _, err2 = c16Off.GenerateWithMap(e.text, op.MapName)
			if err1 == nil && err2 == nil {
				for i, tu := range cp.P.Tuples {
					e.maps = append(e.maps, &Tree{Kind: "map", Keys: cp.P.ArgNames, Items: tu, Repr: cp.Reprs[i%len(cp.Reprs)]})
				}
				earlier = append(earlier, e)
			}
		}()
	}
}

func c16HistoryCorpus() []*c16Hist {
	ti := func(i int) *Tree { return &Tree{Kind: "int", I: i} }
	tl := func(is ...int) *Tree {
		t := &Tree{Kind: "list", Repr: "eager"}
		for _, i := range is {
			t.Items = append(t.Items, ti(i))
		}
		return t
	}
	names := []string{"a", "rate", "l"}
	tuples := [][]*Tree{{ti(2), ti(7), tl(1, 2, 3)}, {ti(-1), ti(3), tl()}}
	mk := func(t *pgNode) *c16Program {
		return &c16Program{P: &pgProgram{T: t, ArgNames: names, Tuples: tuples, Stream: "corpus"}, Reprs: []string{"listmap", "real"}}
	}
	a, rate := func() *pgNode { return pgNId("a") }, func() *pgNode { return pgNId("rate") }
	first := mk(pgNOp("+", a(), pgNInt(1)))
	top := mk(pgNOp("*", a(), rate()))
	clo := mk(pgNMethod("method", pgNId("l"), "map", pgNClo([]string{"e"}, pgNOp("*", pgNId("e"), rate()))))
	fn := mk(pgNFunc("f", []string{"n"}, pgNIf(pgNOp("<=", pgNId("n"), pgNInt(0)), rate(), pgNOp("+", a(), pgNCall("closure", pgNId("f"), pgNOp("-", pgNId("n"), pgNInt(1))))),
		pgNCall("closure", pgNId("f"), pgNInt(2))))
	loc := mk(pgNLet("rate", pgNInt(5), pgNOp("*", a(), rate())))
	c := &c16Const{Name: "rate", Value: ti(10)}
	return []*c16Hist{
		// GenerateWithMap; AddConstant("rate", 10); GenerateWithMap of programs using rate - same and other map name
		{Ops: []c16HistOp{{Prog: first, MapName: "mq"}, {Prog: top, MapName: "mq"}, {Const: c}, {Prog: top, MapName: "mq"}, {Prog: clo, MapName: "mq"},
			{Prog: fn, MapName: "mq"}, {Prog: loc, MapName: "mq"}, {Prog: top, MapName: "mr"}}},
		// the constant first
		{Ops: []c16HistOp{{Const: c}, {Prog: top, MapName: "mq"}, {Const: &c16Const{Name: "a", Value: ti(100)}}, {Prog: top, MapName: "mq"}, {Prog: top, MapName: "mr"}}},
	}
}

// ---------- attributes that hold closures and are called ----------

// The argument map has the attributes a, b (ints), f (closure of one argument) and g (closure of two arguments); the
// program calls f and g - at top level, inside closures, inside a recursive func, in a let value.  Compared on the real
// implementation: GenerateWithMap(exp), Generate of exp with every attribute written (m.x) [same AST], and Generate of
// exp with every attribute written m.x WITHOUT parentheses - a called attribute then reads m.f(x), the form the
// property names; all three must agree (optimizer on and off), and Coq compares the first with the reference semantics.
// Maps: list map, real map, put, merge, a struct wrapper (NewToMap) with closure-valued fields, function maps with all
// keys declared, with NO keys declared (Get answers, Size() = 0) and with only some keys declared.
type c16CloProg struct {
	T    *pgNode `json:"tree"`
	A    int     `json:"a"`
	B    int     `json:"b"`
	F    int     `json:"f"` // index into c16CloF
	G    int     `json:"g"` // index into c16CloG
	Repr string  `json:"repr"`
	Clo  bool    `json:"closure_attributes"`
}

type c16CloDef struct {
	text string
	coq  string
}

func c16N(s string) string { return CoqStr(s) }

var c16CloF = []c16CloDef{
	{"x->x*10", "(VClo [" + c16N("x") + "] (AOp " + c16N("*") + " (AIdent " + c16N("x") + ") (AConst (VInt 10%Z))) [] [])"},
	{"x->x+1", "(VClo [" + c16N("x") + "] (AOp " + c16N("+") + " (AIdent " + c16N("x") + ") (AConst (VInt 1%Z))) [] [])"},
}
var c16CloG = []c16CloDef{
	{"(x,y)->x+y", "(VClo [" + c16N("x") + "; " + c16N("y") + "] (AOp " + c16N("+") + " (AIdent " + c16N("x") + ") (AIdent " + c16N("y") + ")) [] [])"},
	{"(x,y)->x*2-y", "(VClo [" + c16N("x") + "; " + c16N("y") + "] (AOp " + c16N("-") + " (AOp " + c16N("*") + " (AIdent " + c16N("x") + ") (AConst (VInt 2%Z))) (AIdent " + c16N("y") + ")) [] [])"},
}

var c16CloReprs = []string{"listmap", "real", "put", "merge", "struct-wrapper", "funcmap", "funcmap-nokeys", "funcmap-partial-ab", "funcmap-partial-f"}

type c16AttrStruct struct{ f, g value.Value }

func (c *c16CloProg) buildMap() value.Value {
	a, b := value.Value(value.Int(c.A)), value.Value(value.Int(c.B))
	f := mustEval(c16CloF[c.F].text, nil)
	g := mustEval(c16CloG[c.G].text, nil)
	lm := func(kv ...any) value.Map {
		m := listMap.New[value.Value](len(kv) / 2)
		for i := 0; i+1 < len(kv); i += 2 {
			m = m.Append(kv[i].(string), kv[i+1].(value.Value))
		}
		return value.NewMap(m)
	}
	attr := func(_ value.Map, key string) (value.Value, bool) {
		switch key {
		case "a":
			return a, true
		case "b":
			return b, true
		case "f":
			return f, true
		case "g":
			return g, true
		}
		return nil, false
	}
	switch c.Repr {
	case "real":
		return value.NewMap(value.RealMap{"a": a, "b": b, "f": f, "g": g})
	case "put":
		return mustEval(`x.put("f",y).put("g",z)`, []string{"x", "y", "z"}, lm("a", a, "b", b), f, g)
	case "merge":
		return mustEval("x+y", []string{"x", "y"}, value.NewMap(value.RealMap{"a": a, "f": f}), value.NewMap(value.RealMap{"b": b, "g": g}))
	case "struct-wrapper":
		m, err := value.NewToMap[c16AttrStruct]().
			Attr("a", func(s c16AttrStruct) value.Value { return a }).
			Attr("b", func(s c16AttrStruct) value.Value { return b }).
			Attr("f", func(s c16AttrStruct) value.Value { return s.f }).
			Attr("g", func(s c16AttrStruct) value.Value { return s.g }).
			Create(c16AttrStruct{f: f, g: g})
		if err != nil {
			fatal("NewToMap: %v", err)
		}
		return m
	case "funcmap":
		fac := value.NewFuncMapFactory(attr, "a", "b", "f", "g")
		return fac.Create(value.EmptyMap)
	case "funcmap-nokeys":
		fac := value.NewFuncMapFactory(attr)
		return fac.Create(value.EmptyMap)
	case "funcmap-partial-ab":
		fac := value.NewFuncMapFactory(attr, "a", "b")
		return fac.Create(value.EmptyMap)
	case "funcmap-partial-f":
		fac := value.NewFuncMapFactory(attr, "f")
		return fac.Create(value.EmptyMap)
	}
	return lm("a", a, "b", b, "f", f, "g", g)
}

func (c *c16CloProg) coqMap() string {
	return fmt.Sprintf("(VMap [(%s, VInt %s); (%s, VInt %s); (%s, %s); (%s, %s)])", c16N("a"), pgCoqZ(int64(c.A)), c16N("b"), pgCoqZ(int64(c.B)),
		c16N("f"), c16CloF[c.F].coq, c16N("g"), c16CloG[c.G].coq)
}

// random programs that call the closure attributes at every nesting level
func (r *Rng) c16CloExpr(d int, locals []string) *pgNode {
	leaf := func() *pgNode {
		c := r.Pick(6)
		switch {
		case c < 2:
			return pgNId("a")
		case c < 3:
			return pgNId("b")
		case c < 4 && len(locals) > 0:
			return pgNId(locals[r.Pick(len(locals))])
		}
		return pgNInt(int64(1 + r.Pick(3)))
	}
	if d <= 0 {
		return leaf()
	}
	switch r.Pick(7) {
	case 0, 1:
		return pgNCall("closure", pgNId("f"), r.c16CloArg(d-1, locals))
	case 2, 3:
		return pgNCall("closure", pgNId("g"), r.c16CloArg(d-1, locals), r.c16CloArg(d-1, locals))
	case 4:
		return pgNOp("+", r.c16CloExpr(d-1, locals), r.c16CloExpr(d-1, locals))
	case 5:
		return pgNOp("-", r.c16CloExpr(d-1, locals), leaf())
	}
	return leaf()
}

// an argument of a called closure attribute: in about half of the cases it contains a binder - a let directly inside the
// argument (f(let t=a; t+1): the local lives in the frame of the CALLER, next to the slots reserved for the pending
// call), an immediately applied closure, or a closure handed to a list method
func (r *Rng) c16CloArg(d int, locals []string) *pgNode {
	if d < 0 {
		d = 0
	}
	name := func(p string) string { return fmt.Sprintf("%s%d", p, len(locals)) }
	switch r.Pick(8) {
	case 0, 1, 2:
		t := name("t")
		return pgNLet(t, r.c16CloExpr(d, locals), r.c16CloExpr(1+r.Pick(2), append(append([]string{}, locals...), t, t)))
	case 3:
		y := name("y")
		return pgNCall("closure", pgNClo([]string{y}, r.c16CloExpr(1+r.Pick(2), append(append([]string{}, locals...), y, y))), r.c16CloExpr(d, locals))
	case 4:
		y := name("y")
		return pgNMethod("method", pgNMethod("method", pgNList(r.c16CloExpr(0, locals), pgNInt(2)), "map",
			pgNClo([]string{y}, r.c16CloExpr(1+r.Pick(2), append(append([]string{}, locals...), y, y)))), "sum")
	}
	return r.c16CloExpr(d, locals)
}

func (r *Rng) c16CloProgram() *c16CloProg {
	var t *pgNode
	call := func(locals ...string) *pgNode {
		// an expression that certainly calls f or g
		if r.Chance(0.5) {
			return pgNCall("closure", pgNId("f"), r.c16CloArg(1+r.Pick(2), locals))
		}
		return pgNCall("closure", pgNId("g"), r.c16CloArg(1+r.Pick(2), locals), r.c16CloArg(r.Pick(2), locals))
	}
	sum := func(l *pgNode, x string, body *pgNode) *pgNode {
		return pgNMethod("method", pgNMethod("method", l, "map", pgNClo([]string{x}, body)), "sum")
	}
	switch r.Pick(6) {
	case 0:
		t = call()
	case 1:
		t = sum(pgNList(pgNInt(1), pgNInt(2)), "x", pgNOp("+", call("x"), pgNId("a")))
	case 2:
		t = sum(pgNList(pgNInt(1), pgNInt(2)), "x", sum(pgNList(pgNId("b")), "y", call("x", "y")))
	case 3:
		t = pgNFunc("s", []string{"n"}, pgNIf(pgNOp("=", pgNId("n"), pgNInt(0)), pgNId("a"), pgNOp("+", call("n"), pgNCall("closure", pgNId("s"), pgNOp("-", pgNId("n"), pgNInt(1))))),
			pgNCall("closure", pgNId("s"), pgNInt(2)))
	case 4:
		t = pgNLet("t", call(), pgNOp("*", pgNId("t"), pgNId("b")))
	default:
		t = pgNOp("+", call(), call())
	}
	return &c16CloProg{T: t, A: 1 + r.Pick(9), B: r.Pick(5), F: r.Pick(len(c16CloF)), G: r.Pick(len(c16CloG)), Repr: c16CloReprs[r.Pick(len(c16CloReprs))], Clo: true}
}

func c16EvalOn(fg *value.FunctionGenerator, text string, withMap bool, m value.Value) c01ImplOut {
	var f funcGen.Func[value.Value]
	var gerr error
	func() {
		defer func() {
			if r := recover(); r != nil {
				gerr = fmt.Errorf("panic in Generate: %v", r)
			}
		}()
		if withMap {
			f, _, gerr = fg.GenerateWithMap(text, c16Map)
		} else {
			f, _, gerr = fg.Generate(text, c16Map)
		}
	}()
	if gerr != nil {
		return c01ErrOut("generr", gerr)
	}
	return c01EvalForced(f, []value.Value{m})
}

func (run *c16Run) runCloCase(c *c16CloProg, id int) {
	sum := run.sum
	q1, q2 := &c16Qual{}, &c16Qual{plain: true}
	tq, tr := q1.qualify(c.T, nil, c16Use{})
	_, tr2 := q2.qualify(c.T, nil, c16Use{})
	text, textQ, textM := c.T.Render(pgPosLet), tr.Render(pgPosLet), tr2.Render(pgPosLet)
	m := c.buildMap()
	c01KeepMessages = false
	type pair struct{ off, on c01ImplOut }
	ev := func(t string, wm bool) pair { return pair{c16EvalOn(c16Off, t, wm, m), c16EvalOn(c16On, t, wm, m)} }
	wm, pl, plm := ev(text, true), ev(textQ, false), ev(textM, false)
	toks1, a1, err1 := c16Parse(text, true)
	toks2, a2, err2 := c16Parse(textQ, false)
	sum.Evaluations++
	sig := "closure attribute called; " + c16Signature(q1.uses)
	sum.Count("closure_attribute_programs", "map representation "+c.Repr)
	if strings.Contains(text, "(let ") || strings.Contains(text, ", let ") {
		sum.Count("closure_attribute_programs", "a let directly inside an argument of the called attribute")
	}
	sum.Count("outcome_withmap_optimizer_off", wm.off.Kind)
	deep := false
	for _, u := range q1.uses {
		if u.closures > 0 || u.inFunc {
			deep = true
		}
	}
	if deep && wm.off.Kind == "val" {
		sum.Nontriv(text + "|" + c.Repr)
	}
	opt := func(term string, err error) string {
		if err != nil {
			return "None"
		}
		return "(Some " + term + ")"
	}
	cp := &c16Program{Clo: c}
	human := map[string]any{"text": text, "qualified": textQ, "qualified_without_parentheses": textM, "map_name": c16Map,
		"map": fmt.Sprintf("{a:%d, b:%d, f:%s, g:%s} as %s", c.A, c.B, c16CloF[c.F].text, c16CloG[c.G].text, c.Repr),
		"GenerateWithMap": wm.off.Human + " | optimizer on: " + wm.on.Human, "Generate_qualified": pl.off.Human + " | optimizer on: " + pl.on.Human,
		"Generate_qualified_without_parentheses": plm.off.Human + " | optimizer on: " + plm.on.Human, "signature": sig, "repro": cp}
	sum.Cases[fmt.Sprint(id)] = human
	run.cw.Add(fmt.Sprintf("(%d, mkQ vops vunary vconsts vfuncs %s\n  %s\n  %s\n  %s false false %s,\n  (%s, %s, [([%s], %s, %s)]))", id, CoqStr(c16Map),
		c16CoqToks(toks1), c16CoqToks(toks2), tq.CoqT([]string{c16Map}, c01Statics), c16ExtraCoq(),
		opt(a1, err1), opt(a2, err2), c.coqMap(), wm.off.Coq, wm.on.Coq))
	viol := func(what, exp, obs string) {
		sum.GoViolations = append(sum.GoViolations, GoViolation{CaseID: id, What: what, Sig: sig, Human: human, Expected: exp, Observed: obs})
	}
	switch {
	case (err1 == nil) != (err2 == nil):
		viol("the parser accepts only one of the implicit-attribute program and the qualified program", fmt.Sprint("qualified: ", err2), fmt.Sprint("implicit: ", err1))
	case err1 == nil && a1 != a2:
		viol("the AST of the implicit-attribute program differs from the AST of the qualified program (annotations included)", a2, a1)
	case !c01SameOutcome(wm.off, pl.off) || !c01SameOutcome(wm.on, pl.on):
		viol("GenerateWithMap(exp) and Generate(exp with attributes written (m.x)) give different outcomes", "qualified: "+pl.off.Human+" | "+pl.on.Human, "implicit: "+wm.off.Human+" | "+wm.on.Human)
	case !c01SameOutcome(wm.off, plm.off) || !c01SameOutcome(wm.on, plm.on):
		viol("GenerateWithMap(exp) and Generate(exp with attributes written m.x - a called attribute as m.f(...)) give different outcomes",
			"explicit m.f(...): "+plm.off.Human+" | "+plm.on.Human, "implicit: "+wm.off.Human+" | "+wm.on.Human)
	}
}

// ---------- corpus ----------

func c16Corpus() []*c16Program {
	ti := func(i int) *Tree { return &Tree{Kind: "int", I: i} }
	tl := func(is ...int) *Tree {
		t := &Tree{Kind: "list", Repr: "eager"}
		for _, i := range is {
			t.Items = append(t.Items, ti(i))
		}
		return t
	}
	mk := func(t *pgNode, names []string, tuples ...[]*Tree) *c16Program {
		return &c16Program{P: &pgProgram{T: t, ArgNames: names, Tuples: tuples, Stream: "corpus"}, Reprs: []string{"listmap", "real", "funcmap"}}
	}
	a, e := func() *pgNode { return pgNId("a") }, func() *pgNode { return pgNId("e") }
	mqn := func() *pgNode { return pgNId(c16Map) }
	mkx := func(t *pgNode, names []string, tuples ...[]*Tree) *c16Program {
		cp := mk(t, names, tuples...)
		cp.Explicit = []string{"corpus"}
		return cp
	}
	la := []string{"l", "a"}
	lt := [][]*Tree{{tl(1, 2, 3), ti(10)}, {tl(), ti(1)}, {tl(5), ti(-2)}}
	return []*c16Program{
		// l.map(e->e+a).sum()  : the defect repaired by "closures inside GenerateWithMap expressions capture the implicit map"
		mk(pgNMethod("method", pgNMethod("method", pgNId("l"), "map", pgNClo([]string{"e"}, pgNOp("+", e(), a()))), "sum"), la, lt...),
		// three nested closures, the attribute is used in the innermost
		mk(pgNCall("closure", pgNCall("closure", pgNCall("closure", pgNClo([]string{"x"}, pgNClo([]string{"y"}, pgNClo([]string{"z"},
			pgNOp("+", pgNOp("+", pgNId("x"), pgNId("y")), pgNOp("*", pgNId("z"), a()))))), pgNInt(1)), pgNInt(2)), pgNInt(3)), la, lt...),
		// recursive func using an attribute
		mk(pgNFunc("f", []string{"n"}, pgNIf(pgNOp("<=", pgNId("n"), pgNInt(0)), a(), pgNOp("+", pgNInt(1), pgNCall("closure", pgNId("f"), pgNOp("-", pgNId("n"), pgNInt(1))))),
			pgNCall("closure", pgNId("f"), pgNInt(3))), la, lt...),
		// let inside a call argument
		mk(pgNFunc("g", []string{"p", "q"}, pgNOp("+", pgNOp("*", pgNId("p"), pgNInt(100)), pgNId("q")),
			pgNCall("closure", pgNId("g"), a(), pgNLet("y", pgNOp("+", a(), pgNInt(1)), pgNId("y")))), la, lt...),
		// shadowing: a let, a closure parameter and a func parameter named like the attribute win
		mk(pgNLet("a", pgNInt(1), pgNOp("+", a(), pgNInt(1))), la, lt...),
		mk(pgNOp("+", pgNCall("closure", pgNClo([]string{"a"}, pgNOp("*", a(), pgNInt(2))), pgNInt(21)), a()), la, lt...),
		// constants and static functions named like attributes win: pi, sqr
		mk(pgNOp("+", pgNId("pi"), pgNCall("static", pgNId("sqr"), a())), []string{"pi", "sqr", "a"}, []*Tree{ti(3), ti(4), ti(5)}, []*Tree{ti(0), ti(1), ti(2)}),
		// the attribute called as a function: x(1) stays a call of (m.x), it does not become the method call m.x(1)
		mk(pgNCall("closure", a(), pgNInt(1)), la, lt...),
		// the program mentions the map argument by name next to implicit uses: mq.a + a
		mkx(pgNOp("+", pgNMember(mqn(), "a"), a()), la, lt...),
		// l.map(e -> mq.a * e + a)
		mkx(pgNMethod("method", pgNId("l"), "map", pgNClo([]string{"e"}, pgNOp("+", pgNOp("*", pgNMember(mqn(), "a"), e()), a()))), la, lt...),
		// let k = mq; k.a * a
		mkx(pgNLet("k", mqn(), pgNOp("*", pgNMember(pgNId("k"), "a"), a())), la, lt...),
		// (e -> mq)(0).a + a     the map returned from a closure
		mkx(pgNOp("+", pgNMember(pgNCall("closure", pgNClo([]string{"e"}, mqn()), pgNInt(0)), "a"), a()), la, lt...),
		// mq.get("a") + mq.size() + a ,   if "a" ~ mq then a else 0
		mkx(pgNOp("+", pgNOp("+", pgNMethod("method", mqn(), "get", pgNStr("a")), pgNMethod("method", mqn(), "size")), a()), la, lt...),
		mkx(pgNIf(pgNOp("~", pgNStr("a"), mqn()), a(), pgNInt(0)), la, lt...),
		// func f(n) if n <= 0 then mq.a else a + f(n-1); f(2)    explicit and implicit use inside a recursive func
		mkx(pgNFunc("f", []string{"n"}, pgNIf(pgNOp("<=", pgNId("n"), pgNInt(0)), pgNMember(mqn(), "a"), pgNOp("+", a(), pgNCall("closure", pgNId("f"), pgNOp("-", pgNId("n"), pgNInt(1))))),
			pgNCall("closure", pgNId("f"), pgNInt(2))), la, lt...),
	}
}

// ---------- command ----------

func cmdC16(seed int64, tier, outDir string) {
	c01Setup()
	c16DumpSetup()
	c16On, c16Off = c01FgOn, c01FgOff
	n, maxNodes, nHist, nClo := 180, 36, 30, 40
	if tier == "thorough" {
		n, maxNodes, nHist, nClo = 6000, 80, 600, 1000
	}
	sum := NewSummary("C16", seed, tier)
	sum.Rule = "programs of the C01 generator (operators, let, func with recursion, closures up to 3+ levels, if, switch, try, list/map literals, methods, static functions) whose arguments all become attributes of one map argument; attribute uses at every nesting level (top level, inside 1..3+ closures, inside func bodies, inside lets within call arguments); attribute names that collide with constants (pi), static functions (sqr) and local bindings; about a third of the programs also MENTION THE MAP ARGUMENT BY NAME next to the implicit uses, at every nesting level (mq.x, mq.get(\"x\"), let k = mq; k.x, the map returned from a closure, passed to a function, \"x\" ~ mq, mq.size()) - qualification leaves those as they are; 3 maps per program, each in a representation of harness/tree.go (listmap, real, put, merge, replace, eval, map-method, funcmap, funcmap-absent, tomap); GenerateWithMap(exp) against Generate(exp with every free attribute written (m.x)), optimizer on and off; plus programs whose attributes hold CLOSURES THAT ARE CALLED (at top level, inside closures, in a recursive func, in a let value; the arguments of these calls contain binders: a let directly inside an argument, nested calls, immediately applied closures, closures handed to list methods) on list/real/put/merge maps, struct wrappers (NewToMap) with closure-valued fields and function maps with all, none or only some keys declared - GenerateWithMap(exp) against Generate with the attributes written (m.x) and against Generate with the attributes written m.x without parentheses (the called attribute as m.f(...)); plus HISTORIES of one generator object (4..12 operations: AddConstant with names of attributes and locals, GenerateWithMap with one or two alternating map names): every GenerateWithMap is checked on the generator of the history against Generate of the text qualified relative to the constants registered so far, the parser model and the reference semantics with exactly these constants, and functions generated earlier are re-evaluated after every later AddConstant. Distinct non-trivial: program texts with >= 1 attribute use inside a closure or func body that generate without error"
	vops, vun, _, _ := c16Dump.GetParser().VerifParseConfig()
	var funcs []string
	for f := range c01Statics {
		funcs = append(funcs, f)
	}
	sort.Strings(funcs)
	cw := NewCaseWriter(outDir, "From P2 Require Import Base.Prelude Sem.Num Sem.Syntax Sem.Obs Run.C16Run.", "c16_case", "c16_id", "c16_im", "c16_is", 60)
	cw.prelude = fmt.Sprintf("Definition vops : list str := %s.\nDefinition vunary : list str := %s.\nDefinition vconsts : list str := %s.\nDefinition vfuncs : list str := %s.\n",
		c03CoqStrs(vops), c03CoqStrs(vun), c03CoqStrs(c16Consts), c03CoqStrs(funcs))
	cw.epilogue = "Definition c16_counts := Eval vm_compute in c16_stats cases.\nPrint c16_counts.\n"
	run := &c16Run{sum: sum, cw: cw}
	finish := func() {
		cw.Flush()
		sum.CaseFiles = cw.files
		sum.Extra["coq_count_names"] = []string{"reference semantics compared", "unsupported", "out of fuel", "laziness"}
		sort.SliceStable(sum.GoViolations, func(i, j int) bool {
			return len(fmt.Sprint(sum.GoViolations[i].Human["text"])) < len(fmt.Sprint(sum.GoViolations[j].Human["text"]))
		})
		sum.Write(outDir)
	}
	if optReplay != "" {
		var cp c16Program
		if err := json.Unmarshal(loadReplayCase(), &cp); err != nil {
			fatal("replay case: %v", err)
		}
		if cp.Clo != nil {
			run.runCloCase(cp.Clo, 1)
		} else if cp.Hist != nil {
			id := 0
			run.runHistory(cp.Hist, &id)
		} else {
			run.runCase(&cp, 1)
		}
		finish()
		return
	}
	n *= optBoost
	id := 0
	for _, cp := range c16Corpus() {
		id++
		run.runCase(cp, id)
	}
	for _, h := range c16HistoryCorpus() {
		run.runHistory(h, &id)
	}
	// closure attributes that are called, in every representation incl. function maps without declared keys
	fa := func(x *pgNode) *pgNode { return pgNCall("closure", pgNId("f"), x) }
	ga := func(x, y *pgNode) *pgNode { return pgNCall("closure", pgNId("g"), x, y) }
	idn, op := pgNId, pgNOp
	for _, t := range []*pgNode{
		// binders inside the arguments of a called closure attribute (the local of the let lives in the caller's frame):
		// f(let t=a; t+1)   g(b, let t=a; t*2)   g(let s=b; s+1, let t=a; t+b)   [1,2].map(x->g(x, let t=a; t+x)).sum()
		// func h(x) g(x, let t=a; t+x); h(b)   f(f(let t=a; t+1))   g(f(let t=b; t+a), let u=b; u*2)
		// f((y->y+a)(let t=b; t+1))   g(a, [a,2].map(y->f(let t=y; t+b)).sum())
		fa(pgNLet("t", idn("a"), op("+", idn("t"), pgNInt(1)))),
		ga(idn("b"), pgNLet("t", idn("a"), op("*", idn("t"), pgNInt(2)))),
		ga(pgNLet("s", idn("b"), op("+", idn("s"), pgNInt(1))), pgNLet("t", idn("a"), op("+", idn("t"), idn("b")))),
		pgNMethod("method", pgNMethod("method", pgNList(pgNInt(1), pgNInt(2)), "map",
			pgNClo([]string{"x"}, ga(idn("x"), pgNLet("t", idn("a"), op("+", idn("t"), idn("x")))))), "sum"),
		pgNFunc("h", []string{"x"}, ga(idn("x"), pgNLet("t", idn("a"), op("+", idn("t"), idn("x")))), pgNCall("closure", idn("h"), idn("b"))),
		fa(fa(pgNLet("t", idn("a"), op("+", idn("t"), pgNInt(1))))),
		ga(fa(pgNLet("t", idn("b"), op("+", idn("t"), idn("a")))), pgNLet("u", idn("b"), op("*", idn("u"), pgNInt(2)))),
		fa(pgNCall("closure", pgNClo([]string{"y"}, op("+", idn("y"), idn("a"))), pgNLet("t", idn("b"), op("+", idn("t"), pgNInt(1))))),
		ga(idn("a"), pgNMethod("method", pgNMethod("method", pgNList(idn("a"), pgNInt(2)), "map",
			pgNClo([]string{"y"}, fa(pgNLet("t", idn("y"), op("+", idn("t"), idn("b")))))), "sum")),
		fa(pgNId("a")), pgNOp("+", pgNCall("closure", pgNId("g"), pgNId("a"), pgNId("b")), pgNId("b")),
		fa(pgNCall("closure", pgNId("g"), pgNId("a"), fa(pgNId("b")))),
		pgNMethod("method", pgNMethod("method", pgNList(pgNInt(1), pgNInt(2)), "map", pgNClo([]string{"x"}, pgNOp("+", fa(pgNId("x")), pgNId("a")))), "sum"),
		pgNFunc("s", []string{"n"}, pgNIf(pgNOp("=", pgNId("n"), pgNInt(0)), pgNId("a"), pgNOp("+", fa(pgNId("n")), pgNCall("closure", pgNId("s"), pgNOp("-", pgNId("n"), pgNInt(1))))), pgNCall("closure", pgNId("s"), pgNId("b"))),
	} {
		for _, repr := range c16CloReprs {
			id++
			run.runCloCase(&c16CloProg{T: t, A: 7, B: 3, F: 0, G: 0, Repr: repr, Clo: true}, id)
		}
	}
	sum.Extra["corpus_cases"] = id
	r := NewRng(seed)
	for i := 0; i < nHist*optBoost; i++ {
		run.runHistory(r.c16GenHistory(maxNodes), &id)
	}
	// the closure-attribute family draws from a generator of its own: the history and program streams do not depend on it
	rc := NewRng(seed + 1600)
	for i := 0; i < nClo*optBoost; i++ {
		id++
		run.runCloCase(rc.c16CloProgram(), id)
	}
	for i := 0; i < n; i++ {
		id++
		p := pgGenProgram(r, c01Statics, maxNodes)
		cp := &c16Program{P: p}
		if r.Chance(0.6) {
			ints := map[string]bool{}
			for j, n := range p.ArgNames {
				if p.Tuples[0][j].Kind == "int" {
					ints[n] = true
				}
			}
			t2, forms := c16Explicit(r, p.T, ints)
			if len(forms) > 0 {
				p.T = t2
				cp.Explicit = sortedKeys(forms)
			}
		}
		for range p.Tuples {
			cp.Reprs = append(cp.Reprs, mapReprs[r.Pick(len(mapReprs))])
		}
		run.runCase(cp, id)
	}
	finish()
}
