package main

// Correspondence run of property C02 (constant folding is unobservable; value instance).
//
// Two generators built like value.New() plus two host functions registered through
// AddStaticFunction: tick(k, x) (IsPure false: returns x and counts its calls per k) and ptick(k, x)
// (IsPure true: returns x, does not count - a pure function may be folded away).  One generator keeps
// the default optimizer, the other gets SetOptimizer(nil).  Per program:
//   (i)   tick counts during Generate must be 0 (nothing impure runs at Generate time);
//   (ii)  tick counts per evaluation must be the same with and without the optimizer, per k
//         (ticks in untaken branches stay 0 in both);
//   (iii) outcome with optimizer = outcome without = Ref.eval on the harness's own tree (c02_is; ticks erased);
//   (iv)  Gen.run on Opt.optimize(flags, dumped unoptimized AST) = outcome with the optimizer (c02_im).

import (
	"encoding/json"
	"fmt"
	"io"
	"log"
	"math"
	"os"
	"sort"
	"strings"
	"syscall"
	"unsafe"

	"github.com/hneemann/parser2"
	"github.com/hneemann/parser2/funcGen"
	"github.com/hneemann/parser2/value"
)

func init() { register("c02", cmdC02) }

var c02Ticks = map[int]int{}

func c02NewGenerator() *value.FunctionGenerator {
	fg := value.New()
	fg.AddStaticFunction("tick", funcGen.Function[value.Value]{
		Func: func(st funcGen.Stack[value.Value], cs []value.Value) (value.Value, error) {
			if k, ok := st.Get(0).(value.Int); ok {
				c02Ticks[int(k)]++
			} else {
				c02Ticks[-1]++
			}
			return st.Get(1), nil
		},
		Args:   2,
		IsPure: false,
	})
	fg.AddStaticFunction("ptick", funcGen.Function[value.Value]{
		Func: func(st funcGen.Stack[value.Value], cs []value.Value) (value.Value, error) {
			return st.Get(1), nil
		},
		Args:   2,
		IsPure: true,
	})
	return fg
}

func c02Setup() {
	log.SetOutput(io.Discard)
	c01FgOn = c02NewGenerator()
	c01FgOff = c02NewGenerator()
	c01FgOff.SetOptimizer(nil)
	c02FgDump = c02NewGenerator()
	c02DumpSpy = &c02Spy{inner: funcGen.VerifOptimizer(c02FgDump.FunctionGenerator), clos: map[uintptr]string{}}
	c02FgDump.SetOptimizer(c02DumpSpy)
	c01Statics = map[string]bool{}
	for _, f := range c01FgOn.VerifStaticFunctions() {
		c01Statics[f.Name] = true
	}
}

// ---------- the AST tie: the REAL optimized AST as a Coq term ----------
//
// A third generator instance (same configuration) whose optimizer is wrapped by a spy: the optimized AST
// that is dumped is never used to generate code, so forcing a lazy constant list for the dump cannot
// influence the observed evaluations.  What is printed and how:
//   * int/float/string/bool constants: exactly (floats as sign/mantissa/exponent of the binary64 value);
//   * list constants: by content (a lazy list is forced; a list whose forcing fails or panics is
//     "not comparable"); map constants: entries in the iteration order of the map;
//   * closure constants: a closure value is opaque Go code.  The spy sees every application of the
//     closure-literal rule (input *ClosureLiteral, output *Const) and records, under the identity of the
//     generated function object, the parameter names and the (already optimized) body of that literal:
//     such a constant is printed as VClo names body [] [] wherever the value turns up later (also inside
//     lists/maps and after constant propagation through a let).  A closure that generated code computed at
//     Generate time (a constant closure applied to constants returning a closure ...) has no source: the
//     case is "not comparable".
type c02Spy struct {
	inner parser2.Optimizer
	clos  map[uintptr]string // identity of closure.Func -> Coq value term, "" = ambiguous
	keep  []value.Closure    // keeps the function objects alive (no address reuse within a case)
}

func c02FuncID(f funcGen.ParserFunc[value.Value]) uintptr {
	return *(*uintptr)(unsafe.Pointer(&f))
}

func (s *c02Spy) Optimize(a parser2.AST) parser2.AST {
	res := s.inner.Optimize(a)
	if cl, ok := a.(*parser2.ClosureLiteral); ok {
		if c, ok := res.(*parser2.Const[value.Value]); ok {
			if clo, ok := c.Value.(value.Closure); ok {
				term := ""
				func() {
					defer func() {
						if r := recover(); r != nil {
							term = ""
						}
					}()
					term = "(VClo " + pgCoqNames(cl.Names) + " " + c01DumpAst(cl.Func) + " [] [])"
				}()
				id := c02FuncID(clo.Func)
				if old, ok := s.clos[id]; ok && old != term {
					term = ""
				}
				s.clos[id] = term
				s.keep = append(s.keep, clo)
			}
		}
	}
	return res
}

var c02FgDump *value.FunctionGenerator
var c02DumpSpy *c02Spy

func c02DumpValue(v value.Value) string {
	switch c := v.(type) {
	case value.Int:
		return "(VInt " + pgCoqZ(int64(c)) + ")"
	case value.Float:
		return "(VFloat " + pgCoqFloat(float64(c)) + ")"
	case value.String:
		return "(VStr " + CoqStr(string(c)) + ")"
	case value.Bool:
		return "(VBool " + CoqBool(bool(c)) + ")"
	case *value.List:
		var sl []value.Value
		var err error
		func() {
			defer func() {
				if r := recover(); r != nil {
					err = fmt.Errorf("panic: %v", r)
				}
			}()
			sl, err = c.ToSlice(funcGen.NewEmptyStack[value.Value]())
		}()
		if err != nil {
			panic(c01DumpErr{"a constant list cannot be forced"})
		}
		parts := make([]string, len(sl))
		for i, it := range sl {
			parts[i] = c02DumpValue(it)
		}
		return "(VList " + CoqList(parts) + ")"
	case value.Map:
		var es []string
		c.Iter(func(k string, v value.Value) bool {
			es = append(es, "("+CoqStr(k)+", "+c02DumpValue(v)+")")
			return true
		})
		return "(VMap " + CoqList(es) + ")"
	case value.Closure:
		if t, ok := c02DumpSpy.clos[c02FuncID(c.Func)]; ok && t != "" {
			return t
		}
		panic(c01DumpErr{"closure constant computed by generated code at Generate time"})
	}
	panic(c01DumpErr{fmt.Sprintf("constant of type %T", v)})
}

// c02DumpOn: the AST the real parser returns WITH the optimizer, as a Coq term; reason != "": not comparable
func c02DumpOn(text string, names []string) (term string, reason string, astText string) {
	c02DumpSpy.clos = map[uintptr]string{}
	c02DumpSpy.keep = nil
	c01DumpConstExt = c02DumpValue
	defer func() {
		c01DumpConstExt = nil
		if r := recover(); r != nil {
			term = ""
			if d, ok := r.(c01DumpErr); ok {
				reason = d.what
				return
			}
			reason = "panic in the parser"
		}
	}()
	ast, err := c02FgDump.CreateAst(text, c02FgDump.Identifier().AddArgs(names, nil))
	if err != nil {
		return "", "parse error with the optimizer", ""
	}
	astText = ast.String()
	return c01DumpAst(ast), "", astText
}

var c02TieReasons = []string{
	"parse error with the optimizer",
	"closure constant computed by generated code at Generate time",
	"a constant list cannot be forced",
	"panic in the parser",
}

func c02TieReasonCode(reason string) int {
	for i, r := range c02TieReasons {
		if r == reason {
			return i + 1
		}
	}
	return len(c02TieReasons) + 1 // other (constant of an unmodelled type)
}

func c02TickKey() string {
	var ks []int
	for k, n := range c02Ticks {
		if n != 0 {
			ks = append(ks, k)
		}
	}
	sort.Ints(ks)
	var parts []string
	for _, k := range ks {
		parts = append(parts, fmt.Sprintf("%d:%d", k, c02Ticks[k]))
	}
	return strings.Join(parts, " ")
}

func c02ResetTicks() {
	for k := range c02Ticks {
		delete(c02Ticks, k)
	}
}

type c02Obs struct {
	out        []c01ImplOut
	ticks      []string // per tuple: "k:n ..." of the non-zero counters
	genTicks   string   // counters after Generate (must be empty)
	astText    string   // String() of the AST the parser returned
	hasIdent   bool     // a variable survives in that AST
	generateOK bool
	repeatDiff string // non-empty: a second evaluation of the same function on equal arguments differed
}

func c02Run(fg *value.FunctionGenerator, text string, names []string, tuples [][]*Tree) c02Obs {
	var o c02Obs
	c02ResetTicks()
	var f funcGen.Func[value.Value]
	var gerr error
	func() {
		defer func() {
			if r := recover(); r != nil {
				gerr = fmt.Errorf("panic in Generate: %v", r)
			}
		}()
		if ast, err := fg.CreateAst(text, fg.Identifier().AddArgs(names, nil)); err == nil {
			o.astText = ast.String()
			ast.Traverse(parser2.VisitorFunc(func(a parser2.AST) bool {
				if id, ok := a.(*parser2.Ident); ok && !id.IsFunc {
					o.hasIdent = true
				}
				return true
			}))
		}
		f, _, gerr = fg.Generate(text, names...)
	}()
	o.genTicks = c02TickKey()
	o.generateOK = gerr == nil
	for _, tu := range tuples {
		if gerr != nil {
			o.out = append(o.out, c01ErrOut("generr", gerr))
			o.ticks = append(o.ticks, "")
			continue
		}
		args := make([]value.Value, len(tu))
		for j, a := range tu {
			args[j] = a.Build()
		}
		c02ResetTicks()
		o.out = append(o.out, c01EvalForced(f, args))
		o.ticks = append(o.ticks, c02TickKey())
	}
	// the SAME generated function evaluated again on equal tuples (freshly built argument values):
	// constants folded into the function must not have been changed by the first evaluations
	if gerr == nil {
		for i, tu := range tuples {
			args := make([]value.Value, len(tu))
			for j, a := range tu {
				args[j] = a.Build()
			}
			c02ResetTicks()
			again := c01EvalForced(f, args)
			if !c01SameOutcome(again, o.out[i]) || c02TickKey() != o.ticks[i] {
				o.repeatDiff = fmt.Sprintf("tuple %d: first %s [ticks %s], again %s [ticks %s]", i, o.out[i].Human, o.ticks[i], again.Human, c02TickKey())
				break
			}
		}
	}
	return o
}

// ---------- signature: (rewrite kind, operator/function, operand kinds) as far as the program shows it ----------

func c02KindOf(n *pgNode) string {
	switch n.K {
	case "int", "float", "str", "list", "map":
		return n.K
	case "ident":
		if n.Name == "true" || n.Name == "false" {
			return "bool"
		}
		if n.Name == "pi" {
			return "float"
		}
	case "unary":
		if n.Name == "-" {
			if k := c02KindOf(n.Kids[0]); k == "int" || k == "float" {
				return k
			}
		}
	case "clo":
		return "closure"
	}
	return ""
}

func c02IsConstLit(n *pgNode) bool {
	switch n.K {
	case "list", "map":
		for _, k := range n.Kids {
			if !c02IsConstLit(k) {
				return false
			}
		}
		return true
	}
	k := c02KindOf(n)
	return k != "" && k != "closure"
}

func c02Rewrites(t *pgNode) []string {
	set := map[string]bool{}
	t.Walk(func(x *pgNode) {
		switch x.K {
		case "op":
			a, b := x.Kids[0], x.Kids[1]
			if c02IsConstLit(a) && c02IsConstLit(b) {
				set["fold "+x.Name+" ("+c02KindOf(a)+","+c02KindOf(b)+")"] = true
			} else if a.K == "op" && a.Name == x.Name && c02IsConstLit(b) {
				if c02IsConstLit(a.Kids[0]) {
					set["regroup-left "+x.Name+" ("+c02KindOf(a.Kids[0])+","+c02KindOf(b)+")"] = true
				} else if c02IsConstLit(a.Kids[1]) {
					set["regroup-right "+x.Name+" ("+c02KindOf(a.Kids[1])+","+c02KindOf(b)+")"] = true
				}
			}
		case "unary":
			if c02IsConstLit(x.Kids[0]) && c02KindOf(x) == "" {
				set["fold unary "+x.Name+" ("+c02KindOf(x.Kids[0])+")"] = true
			}
		case "if":
			if c02IsConstLit(x.Kids[0]) {
				set["const-if ("+c02KindOf(x.Kids[0])+")"] = true
			}
		case "switch":
			if c02IsConstLit(x.Kids[0]) {
				set["const-switch"] = true
			}
		case "index":
			if c02IsConstLit(x.Kids[0]) && c02IsConstLit(x.Kids[1]) {
				set["fold index"] = true
			}
		case "member":
			if c02IsConstLit(x.Kids[0]) {
				set["fold member"] = true
			}
		case "call":
			all := true
			for _, a := range x.Kids[1:] {
				if !c02IsConstLit(a) && a.K != "clo" {
					all = false
				}
			}
			if all {
				if f := x.Kids[0]; f.K == "ident" {
					set["static-or-closure-call "+f.Name] = true
				} else if f.K == "clo" {
					set["closure-fold"] = true
				}
			}
		case "method":
			if c02IsConstLit(x.Kids[0]) {
				set["method-fold "+x.Name] = true
			}
		}
	})
	keys := sortedKeys(set)
	if len(keys) > 4 {
		keys = keys[:4]
	}
	return keys
}

func c02Signature(p *pgProgram, what string) string {
	keys := c02Rewrites(p.T)
	if what == "impure call at Generate time" && len(keys) > 1 {
		keys = keys[:1] // one finding, however many other constant sub-expressions the program has
	}
	rw := strings.Join(keys, "; ")
	if rw == "" {
		rw = "no constant sub-expression recognised"
	}
	if what != "" {
		return what + ": " + rw
	}
	return rw
}

// ---------- one case ----------

type c02State struct {
	sum    *Summary
	cw     *CaseWriter
	errs   int
	allOut int
}

func (r *c02State) runCase(p *pgProgram, id int) {
	sum := r.sum
	text := p.T.Render(pgPosLet)
	if os.Getenv("P2H_TRACE") != "" {
		fmt.Fprintf(os.Stderr, "case %d: %s\n", id, text)
	}
	term, perr, unsupported := c01ParseOff(text, p.ArgNames)
	if unsupported != "" {
		sum.Skipped["ast-dump-unsupported: "+unsupported]++
		return
	}
	c01KeepMessages = false
	p.T.Walk(func(x *pgNode) {
		if x.K == "ident" && x.Name == "throw" {
			c01KeepMessages = true
		}
	})
	off := c02Run(c01FgOff, text, p.ArgNames, p.Tuples)
	on := c02Run(c01FgOn, text, p.ArgNames, p.Tuples)
	sum.Evaluations++

	spec := pgEraseTicks(p.T)
	excl := p.T.redeclares(p.ArgNames)
	lazy := p.T.hasLazyStage()
	nodes := p.T.Count()
	rewrites := c02Rewrites(p.T)

	// ---- distribution
	sum.Count("stream", p.Stream)
	sum.Count("nodes", bucket(nodes))
	nticks, nconst := 0, 0
	p.T.Walk(func(x *pgNode) {
		sum.Count("constructs", x.K)
		if x.K == "op" || x.K == "unary" {
			sum.Count("operators", x.K+" "+x.Name)
		}
		if x.K == "method" {
			sum.Count("methods", x.Name)
		}
		if x.K == "call" && x.Kids[0].K == "ident" && c01Statics[x.Kids[0].Name] {
			sum.Count("static_functions", x.Kids[0].Name)
			if x.Kids[0].Name == "tick" {
				nticks++
			}
		}
		if c02IsConstLit(x) {
			nconst++
		}
	})
	sum.Count("tick_calls_in_program", bucket(nticks))
	sum.Count("constant_literal_nodes", bucket(nconst))
	for _, k := range rewrites {
		kind := strings.SplitN(k, " (", 2)[0]
		sum.Count("rewrite_candidates", kind)
	}
	if excl {
		sum.Count("exclusions", "redeclaration inside one function body (only model = implementation is checked)")
	}
	rewritten := on.astText != off.astText && on.astText != ""
	if rewritten {
		sum.Count("optimizer", "rewrote the AST")
		if on.hasIdent {
			sum.Count("optimizer", "rewrote the AST and a variable survives")
		}
	} else {
		sum.Count("optimizer", "left the AST unchanged (or parse error)")
	}
	optDiff, tickDiff := false, false
	for i := range off.out {
		r.allOut++
		sum.Count("outcome_optimizer_off", off.out[i].Kind)
		sum.Count("outcome_optimizer_on", on.out[i].Kind)
		if off.out[i].Kind != "val" {
			r.errs++
		}
		if !c01SameOutcome(off.out[i], on.out[i]) {
			optDiff = true
		}
		if off.ticks[i] != on.ticks[i] {
			tickDiff = true
		}
		if off.ticks[i] != "" {
			sum.Count("evaluations_with_ticks", "ticks executed")
		} else if nticks > 0 {
			sum.Count("evaluations_with_ticks", "program has ticks, none executed (untaken branch or error before)")
		}
	}

	// ---- distinct non-trivial: the real optimizer changed the AST and some variable survives
	if rewritten && on.hasIdent {
		sum.Nontriv(text)
	}

	// ---- the case for Coq
	what := ""
	if optDiff {
		what = "outcome differs"
	} else if tickDiff {
		what = "tick counts differ"
	}
	sig := c02Signature(p, what)
	var tuples []string
	var hargs []any
	var hoff, hon []string
	for i, tu := range p.Tuples {
		vals := make([]string, len(tu))
		ha := map[string]any{}
		for j, a := range tu {
			vals[j] = a.CoqValue()
			ha[p.ArgNames[j]] = c01HumanValue(a)
		}
		hargs = append(hargs, ha)
		ho, hn := off.out[i].Human, on.out[i].Human
		if off.ticks[i] != "" || on.ticks[i] != "" {
			ho += "  [ticks " + off.ticks[i] + "]"
			hn += "  [ticks " + on.ticks[i] + "]"
		}
		hoff = append(hoff, ho)
		hon = append(hon, hn)
		tuples = append(tuples, fmt.Sprintf("(%s, %s, %s)", CoqList(vals), off.out[i].Coq, on.out[i].Coq))
	}
	aTerm := "None"
	if perr == nil {
		aTerm = "(Some " + term + ")"
	}
	human := map[string]any{"text": text, "arg_names": p.ArgNames, "args": hargs, "stream": p.Stream, "nodes": nodes,
		"implementation_optimizer_off": hoff, "implementation_optimizer_on": hon,
		"ast_optimizer_off": off.astText, "ast_optimizer_on": on.astText,
		"signature": sig, "repro": p}
	if perr != nil {
		human["parse_error"] = perr.Error()
	}
	sum.Cases[fmt.Sprint(id)] = human
	if rewritten && on.hasIdent {
		sum.Sample(map[string]any{"text": text, "args": hargs, "ast_optimizer_on": on.astText, "implementation_optimizer_on": hon})
	}
	bound := append([]string{}, p.ArgNames...)
	// the real optimized AST for the node-by-node tie with the optimizer model
	realTerm := "(RNotComparable 0)"
	if perr == nil {
		onTerm, reason, dumpText := c02DumpOn(text, p.ArgNames)
		if dumpText != "" && dumpText != on.astText {
			// the spied generator is configured like the observed one: its optimized AST prints the same
			reason = "panic in the parser"
			sum.Count("ast_tie_dump", "SANITY: the spied generator instance returned a different optimized AST than the observed one")
		}
		if reason == "" {
			realTerm = "(RAst " + onTerm + ")"
			sum.Count("ast_tie_dump", "real optimized AST dumped as a Coq term")
		} else {
			realTerm = fmt.Sprintf("(RNotComparable %d)", c02TieReasonCode(reason))
			sum.Count("ast_tie_dump", "not comparable: "+reason)
			if rewritten {
				sum.Count("ast_tie_dump", "not comparable although the optimizer rewrote the AST: "+reason)
			}
		}
		human["ast_tie_dump"] = reason
	} else {
		sum.Count("ast_tie_dump", "no AST (parse error without optimizer)")
	}
	r.cw.Add(fmt.Sprintf("((%d, %s,\n  %s,\n  %s, (%s, %s),\n  %s),\n  %s)", id, spec.CoqT(bound, c01Statics), aTerm, pgCoqNames(p.ArgNames),
		CoqBool(lazy), CoqBool(excl), CoqList(tuples), realTerm))

	// ---- Go-side oracles
	if on.genTicks != "" || off.genTicks != "" {
		sum.GoViolations = append(sum.GoViolations, GoViolation{CaseID: id,
			What: "an impure function was executed during Generate",
			Sig:  c02Signature(p, "impure call at Generate time"), Human: human, Expected: "no tick during Generate", Observed: "ticks with optimizer: [" + on.genTicks + "], without: [" + off.genTicks + "]"})
		return
	}
	if excl {
		return
	}
	if on.repeatDiff != "" || off.repeatDiff != "" {
		sum.GoViolations = append(sum.GoViolations, GoViolation{CaseID: id,
			What: "the same generated function gives a different outcome when evaluated again on equal arguments",
			Sig:  c02Signature(p, "repeated evaluation differs"), Human: human, Expected: "equal outcomes", Observed: "optimizer on: " + on.repeatDiff + " / off: " + off.repeatDiff})
		return
	}
	for i := range off.out {
		if !c01SameOutcome(off.out[i], on.out[i]) {
			sum.GoViolations = append(sum.GoViolations, GoViolation{CaseID: id,
				What: "outcome with the default optimizer differs from the outcome with SetOptimizer(nil)",
				Sig:  sig, Human: human, Expected: "optimizer off: " + off.out[i].Human, Observed: "optimizer on: " + on.out[i].Human})
			return
		}
	}
	for i := range off.out {
		if off.ticks[i] != on.ticks[i] {
			sum.GoViolations = append(sum.GoViolations, GoViolation{CaseID: id,
				What: "an impure function is executed a different number of times with and without the optimizer",
				Sig:  sig, Human: human, Expected: "optimizer off: ticks [" + off.ticks[i] + "]", Observed: "optimizer on: ticks [" + on.ticks[i] + "]"})
			return
		}
	}
}

// ---------- host registration API family ----------
//
// The purity of what is CALLED is what the host declared, whichever registration call was used:
// AddStaticFunction, EnhanceStaticFunction (replacement with / without description, built from the old
// function or from scratch, pure or impure, replacing a pure or an impure function), AddSimpleFunction,
// AddGoFunction.  Every function declared impure counts its calls (c02Ticks[key]).

type c02HostCfg struct {
	Name         string
	Fn           string
	DeclaredPure bool
	Build        func(fg *value.FunctionGenerator, key int)
}

type c02PF = func(st funcGen.Stack[value.Value], cs []value.Value) (value.Value, error)

func c02Counting(key int, inner c02PF) c02PF {
	return func(st funcGen.Stack[value.Value], cs []value.Value) (value.Value, error) {
		c02Ticks[key]++
		return inner(st, cs)
	}
}

func c02Double(st funcGen.Stack[value.Value], cs []value.Value) (value.Value, error) {
	if i, ok := st.Get(0).(value.Int); ok {
		return i * 2, nil
	}
	return nil, fmt.Errorf("int expected")
}

func c02HostConfigs() []c02HostCfg {
	type F = funcGen.Function[value.Value]
	return []c02HostCfg{
		{"AddStaticFunction, IsPure false", "hcount", false, func(fg *value.FunctionGenerator, key int) {
			fg.AddStaticFunction("hcount", F{Func: c02Counting(key, c02Double), Args: 1, IsPure: false})
		}},
		{"EnhanceStaticFunction(sqr): impure replacement literal without description", "sqr", false, func(fg *value.FunctionGenerator, key int) {
			fg.EnhanceStaticFunction("sqr", func(old F) F { return F{Func: c02Counting(key, old.Func), Args: old.Args, IsPure: false} })
		}},
		{"EnhanceStaticFunction(abs): impure replacement with its own description", "abs", false, func(fg *value.FunctionGenerator, key int) {
			fg.EnhanceStaticFunction("abs", func(old F) F {
				return F{Func: c02Counting(key, old.Func), Args: old.Args, IsPure: false}.SetDescription("value", "counting abs")
			})
		}},
		{"EnhanceStaticFunction(sign): old.Pure(false) with a new Func", "sign", false, func(fg *value.FunctionGenerator, key int) {
			fg.EnhanceStaticFunction("sign", func(old F) F { nf := old.Pure(false); nf.Func = c02Counting(key, old.Func); return nf })
		}},
		{"EnhanceStaticFunction: impure replacement of an impure function", "himp", false, func(fg *value.FunctionGenerator, key int) {
			fg.AddStaticFunction("himp", F{Func: c02Double, Args: 1, IsPure: false})
			fg.EnhanceStaticFunction("himp", func(old F) F { return F{Func: c02Counting(key, old.Func), Args: old.Args, IsPure: false} })
		}},
		{"EnhanceStaticFunction: pure replacement of an impure function", "hpure", true, func(fg *value.FunctionGenerator, key int) {
			fg.AddStaticFunction("hpure", F{Func: c02Double, Args: 1, IsPure: false})
			fg.EnhanceStaticFunction("hpure", func(old F) F { return F{Func: old.Func, Args: old.Args, IsPure: true} })
		}},
		{"EnhanceStaticFunction(sqr): pure replacement literal without description", "sqr", true, func(fg *value.FunctionGenerator, key int) {
			fg.EnhanceStaticFunction("sqr", func(old F) F { return F{Func: old.Func, Args: old.Args, IsPure: true} })
		}},
		{"AddSimpleFunction (pure by API)", "hsimple", true, func(fg *value.FunctionGenerator, key int) {
			fg.AddSimpleFunction("hsimple", func(v value.Value) value.Value {
				if i, ok := v.(value.Int); ok {
					return i + 1
				}
				return v
			})
		}},
		{"AddGoFunction (pure by API)", "hgo", true, func(fg *value.FunctionGenerator, key int) {
			fg.AddGoFunction("hgo", 1, func(a ...value.Value) (value.Value, error) { return c02Double(funcGen.NewStack(a...), nil) })
		}},
	}
}

// the small programs every host configuration is exercised with (fn takes one int)
func c02HostPrograms(cfg c02HostCfg) []*pgProgram {
	x := func() *pgNode { return pgNId("x") }
	fn := func(a *pgNode) *pgNode { return pgNCall("static", pgNId(cfg.Fn), a) }
	ints := [][]*Tree{{c01Ti(5)}, {c01Ti(1)}, {c01Ti(-7)}}
	trees := []*pgNode{
		pgNOp("+", fn(pgNInt(3)), x()),
		pgNLet("g", pgNClo([]string{"a"}, pgNOp("*", fn(pgNId("a")), pgNInt(2))), pgNOp("+", pgNCall("closure", pgNId("g"), pgNInt(4)), x())),
		pgNIf(pgNOp("<", pgNInt(1), pgNInt(2)), x(), fn(pgNInt(5))),
		fn(x()),
		pgNOp("+", pgNMethod("method", pgNMethod("method", pgNList(pgNInt(1), pgNInt(2)), "map", pgNClo([]string{"a"}, fn(pgNId("a")))), "sum"), x()),
		pgNOp("+", pgNCall("closure", pgNClo([]string{"a"}, pgNCall("closure", pgNClo([]string{"b"}, fn(pgNOp("+", pgNId("a"), pgNId("b")))), pgNInt(2))), pgNInt(1)), x()),
		pgNOp("+", pgNTry(fn(pgNInt(2)), pgNInt(-1)), x()),
		pgNOp("&", pgNOp("<", x(), pgNInt(0)), pgNOp(">", fn(pgNInt(2)), pgNInt(0))),
	}
	var ps []*pgProgram
	for _, t := range trees {
		ps = append(ps, &pgProgram{T: t, ArgNames: []string{"x"}, Tuples: ints, Stream: "host-api", Host: cfg.Name})
	}
	return ps
}

type c02HostGen struct {
	cfg     c02HostCfg
	on, off *value.FunctionGenerator
	tableOK bool
	table   string
}

var c02HostGens = map[string]*c02HostGen{}

func c02HostGenFor(name string) *c02HostGen {
	if h, ok := c02HostGens[name]; ok {
		return h
	}
	for i, cfg := range c02HostConfigs() {
		if cfg.Name != name {
			continue
		}
		h := &c02HostGen{cfg: cfg, on: value.New(), off: value.New(), tableOK: true}
		cfg.Build(h.on, 9000+i)
		cfg.Build(h.off, 9000+i)
		h.off.SetOptimizer(nil)
		// the regenerated purity table (hook) against the declaration
		for _, fg := range []*value.FunctionGenerator{h.on, h.off} {
			found := false
			for _, f := range fg.VerifStaticFunctions() {
				if f.Name == cfg.Fn {
					found = true
					h.table = fmt.Sprintf("IsPure=%v", f.IsPure)
					if f.IsPure != cfg.DeclaredPure {
						h.tableOK = false
					}
				}
			}
			if !found {
				h.tableOK = false
				h.table = "function missing in the table"
			}
		}
		c02HostGens[name] = h
		return h
	}
	return nil
}

func (r *c02State) hostCase(p *pgProgram, id int) {
	sum := r.sum
	h := c02HostGenFor(p.Host)
	if h == nil {
		fatal("unknown host configuration %q", p.Host)
	}
	text := p.T.Render(pgPosLet)
	c01KeepMessages = false
	off := c02Run(h.off, text, p.ArgNames, p.Tuples)
	on := c02Run(h.on, text, p.ArgNames, p.Tuples)
	sum.Evaluations++
	sum.Count("stream", p.Stream)
	sum.Count("host_api", fmt.Sprintf("%s [declared pure=%v, table %s]", h.cfg.Name, h.cfg.DeclaredPure, h.table))
	var hoff, hon []string
	for i := range off.out {
		hoff = append(hoff, off.out[i].Human+"  [ticks "+off.ticks[i]+"]")
		hon = append(hon, on.out[i].Human+"  [ticks "+on.ticks[i]+"]")
	}
	sig := "host API: " + h.cfg.Name
	human := map[string]any{"text": text, "host_configuration": h.cfg.Name, "function": h.cfg.Fn, "declared_pure": h.cfg.DeclaredPure,
		"purity_table": h.table, "implementation_optimizer_off": hoff, "implementation_optimizer_on": hon,
		"ticks_during_generate": map[string]string{"on": on.genTicks, "off": off.genTicks}, "signature": sig, "repro": p}
	sum.Cases[fmt.Sprint(id)] = human
	viol := func(what, exp, obs string) {
		sum.GoViolations = append(sum.GoViolations, GoViolation{CaseID: id, What: what, Sig: sig, Human: human, Expected: exp, Observed: obs})
	}
	if !h.tableOK {
		obs := h.table
		if !h.cfg.DeclaredPure {
			obs += fmt.Sprintf("; calls during Generate with optimizer: [%s]; calls per evaluation with optimizer: %v, without: %v", on.genTicks, on.ticks, off.ticks)
		}
		viol("the purity the generator records for a host function differs from what the host declared", fmt.Sprintf("IsPure=%v", h.cfg.DeclaredPure), obs)
		return
	}
	for i := range off.out {
		if !c01SameOutcome(off.out[i], on.out[i]) {
			viol("outcome with the default optimizer differs from the outcome with SetOptimizer(nil)", "optimizer off: "+off.out[i].Human, "optimizer on: "+on.out[i].Human)
			return
		}
	}
	if h.cfg.DeclaredPure {
		return
	}
	if on.genTicks != "" || off.genTicks != "" {
		viol("a host function declared impure was executed during Generate", "no call during Generate", "calls with optimizer: ["+on.genTicks+"], without: ["+off.genTicks+"]")
		return
	}
	if on.repeatDiff != "" || off.repeatDiff != "" {
		viol("the same generated function behaves differently when evaluated again on equal arguments", "equal", on.repeatDiff+" / "+off.repeatDiff)
		return
	}
	for i := range off.out {
		if off.ticks[i] != on.ticks[i] {
			viol("a host function declared impure is executed a different number of times with and without the optimizer", "optimizer off: calls ["+off.ticks[i]+"]", "optimizer on: calls ["+on.ticks[i]+"]")
			return
		}
	}
}

// ---------- corpus ----------

func c02ArgOfKind(kind string, variant int) *Tree {
	switch kind {
	case "int":
		return &Tree{Kind: "int", I: []int{5, 1, 1 << 62, -3}[variant%4]}
	case "float":
		return &Tree{Kind: "float", F: []float64{2.5, 0.5, -1.25}[variant%3]}
	case "str":
		return &Tree{Kind: "str", S: []string{"ab", "a", ""}[variant%3]}
	case "bool":
		return &Tree{Kind: "bool", B: variant%2 == 0}
	case "list":
		return &Tree{Kind: "list", Repr: "eager", Items: []*Tree{{Kind: "int", I: 1 + variant%2}}}
	}
	return &Tree{Kind: "map", Repr: "listmap", Keys: []string{[]string{"a", "c"}[variant%2]}, Items: []*Tree{{Kind: "int", I: 1}}}
}

// lists that contain c1 (at a non-last position of the constant [c1, c2]) and mostly c2
func c02ListTuples(c1, c2 int64, variant int) [][]*Tree {
	li := func(vs ...int64) []*Tree {
		t := &Tree{Kind: "list", Repr: "eager"}
		for _, v := range vs {
			t.Items = append(t.Items, &Tree{Kind: "int", I: int(v)})
		}
		return []*Tree{t}
	}
	switch variant % 3 {
	case 0:
		return [][]*Tree{li(c1, c2, 9), li(5, c2, c1), li(c1, 7)}
	case 1:
		return [][]*Tree{li(c2, c1), li(c1, c2), li(4, 4, c1, c2)}
	}
	return [][]*Tree{li(c1, c1, c2), li(c2), li(8, c1, c2, 8)}
}

func c02SharedConstProgram(form int, c1, c2 int64, variant int) *pgProgram {
	return &pgProgram{T: pgSharedConst(form, "f", "a", pgNId("l"), c1, c2), ArgNames: []string{"l"},
		Tuples: c02ListTuples(c1, c2, variant), Stream: "shared-constant"}
}

func c02Corpus() []*pgProgram {
	x := func() *pgNode { return pgNId("x") }
	mk := func(t *pgNode, tuples ...[]*Tree) *pgProgram {
		return &pgProgram{T: t, ArgNames: []string{"x"}, Tuples: tuples, Stream: "corpus"}
	}
	one := func(v *Tree) []*Tree { return []*Tree{v} }
	ints := [][]*Tree{one(c01Ti(5)), one(c01Ti(1)), one(c01Ti(-7))}
	tick := func(k int64, e *pgNode) *pgNode { return pgNCall("static", pgNId("tick"), pgNInt(k), e) }
	ps := []*pgProgram{
		// the recorded defects of the optimizer
		mk(pgNOp("&", pgNInt(3), pgNInt(5)), ints...),
		mk(pgNOp("&", pgNInt(3), x()), ints...),
		mk(pgNOp("=", pgNOp("=", x(), pgNInt(1)), pgNInt(1)), one(c01Tb(true)), one(c01Ti(1)), one(c01Ti(2))),
		mk(pgNOp("|", pgNOp("|", pgNId("false"), x()), pgNId("true")), one(c01Ti(5)), one(c01Tb(true)), one(c01Tb(false))),
		mk(pgNOp("*", pgNOp("*", pgNInt(2), x()), pgNFloat(0.5)), one(&Tree{Kind: "int", I: 1 << 62}), one(c01Ti(3)), one(&Tree{Kind: "float", F: 1.5})),
		mk(pgNMethod("mapfield", pgNMap([]string{"get", "a"}, []*pgNode{pgNClo([]string{"k"}, pgNInt(42)), pgNInt(7)}), "get", pgNStr("a")), ints...),
		// a local binding hides a static function: (sqr -> sqr(3))(y -> y + x)
		mk(pgNCall("closure", pgNClo([]string{"sqr"}, pgNCall("closure", pgNId("sqr"), pgNInt(3))), pgNClo([]string{"y"}, pgNOp("+", pgNId("y"), x()))), ints...),
		// a constant condition that is not a bool: if 1 then x else 2
		mk(pgNIf(pgNInt(1), x(), pgNInt(2)), ints...),
		// a pure static function failing on constants is left alone: try int("a") catch x ; try [].first() catch x
		mk(pgNTry(pgNCall("static", pgNId("int"), pgNStr("a")), x()), ints...),
		mk(pgNTry(pgNMethod("method", pgNList(), "first"), x()), ints...),
		mk(pgNOp("+", x(), pgNTry(pgNOp("%", pgNInt(1), pgNInt(0)), pgNInt(7))), ints...),
		// closures that throw or tick are not folded: let f = y -> throw("boom"); try f(1) catch x
		mk(pgNLet("f", pgNClo([]string{"y"}, pgNCall("static", pgNId("throw"), pgNStr("boom"))), pgNTry(pgNCall("closure", pgNId("f"), pgNInt(1)), x())), ints...),
		mk(pgNLet("f", pgNClo([]string{"y"}, tick(1, pgNOp("+", pgNId("y"), pgNInt(1)))), pgNOp("+", pgNCall("closure", pgNId("f"), pgNInt(1)), pgNCall("closure", pgNId("f"), x()))), ints...),
		mk(pgNOp("+", pgNCall("closure", pgNClo([]string{"y"}, tick(1, pgNId("y"))), pgNInt(2)), x()), ints...),
		// ticks in untaken branches, short-circuit operators and constant conditions
		mk(pgNIf(pgNId("true"), tick(1, x()), tick(2, pgNInt(0))), ints...),
		mk(pgNIf(pgNOp("<", x(), pgNInt(2)), tick(1, pgNInt(1)), tick(2, pgNInt(0))), ints...),
		mk(pgNOp("&", pgNId("false"), tick(1, pgNId("true"))), ints...),
		mk(pgNOp("|", pgNOp(">", x(), pgNInt(0)), tick(1, pgNId("true"))), ints...),
		mk(pgNSwitch(pgNInt(2), [][2]*pgNode{{pgNInt(1), tick(1, x())}, {pgNInt(2), tick(2, x())}}, tick(3, x())), ints...),
		mk(pgNOp("+", tick(1, pgNInt(1)), pgNOp("+", tick(2, pgNInt(2)), x())), ints...),
		mk(pgNMethod("method", pgNList(pgNInt(1), pgNInt(2), pgNInt(3)), "mapReduce", pgNInt(0), pgNClo([]string{"a", "b"}, tick(1, pgNOp("+", pgNId("a"), pgNOp("*", pgNId("b"), x()))))), ints...),
		// several rewrites at once
		mk(pgNLet("y", pgNOp("+", pgNInt(1), pgNInt(2)), pgNLet("f", pgNClo([]string{"z"}, pgNOp("*", pgNId("z"), pgNId("y"))),
			pgNIf(pgNOp("<", pgNInt(1), pgNInt(2)), pgNOp("+", pgNOp("*", x(), pgNCall("closure", pgNId("f"), pgNCall("static", pgNId("abs"), pgNUn("-", pgNId("y"))))),
				pgNMethod("method", pgNMethod("method", pgNList(pgNInt(1), pgNInt(2)), "map", pgNId("f")), "size")), pgNCall("static", pgNId("throw"), pgNStr("y"))))), ints...),
	}
	// an impure call inside a capturing closure nested in a non-capturing closure applied to constants
	// (direct, via map, via a map field, curried, three levels, handed to a method, inside a recursive func)
	for form := 0; form < pgImpureForms; form++ {
		t := pgImpureNested(form, int64(form+1), []string{"a", "b", "c", "g"}, 1, 2, 3)
		if form != 0 && form != 12 {
			t = pgNOp("+", t, x())
		}
		ps = append(ps, mk(t, ints...))
	}
	// an outer (computed constant / variable) name read inside a func or closure body, then hidden by a local of the same name
	for form := 0; form < 5; form++ {
		ps = append(ps, mk(pgShadowAfterUse(form, []string{"a", "b", "f", "n", "m"}, x(), 2, 3), ints...))
	}
	// a closure field named like a built-in map method, called with every argument count (the optimizer must
	// not fold the call as the built-in method, whether or not the closure accepts the arguments)
	for _, name := range pgMapMethodNames {
		for clo := 1; clo <= 3; clo++ {
			for call := 0; call <= 3; call++ {
				ps = append(ps, mk(pgFieldNamedLikeMethod(name, clo, call, false, (clo+call)%2 == 0), ints...))
				if name == "size" || name == "get" {
					ps = append(ps, mk(pgFieldNamedLikeMethod(name, clo, call, true, (clo+call)%2 == 1), ints...))
				}
			}
		}
	}
	// a constant list/map literal inside a folded closure is one shared value: it must survive its uses
	for form := 0; form < 7; form++ {
		ps = append(ps, c02SharedConstProgram(form, 1, 3, 0))
	}
	// [1,2] ~ x directly: the same function evaluated on several tuples and again
	ps = append(ps, &pgProgram{T: pgNOp("~", pgNList(pgNInt(1), pgNInt(2)), pgNId("l")), ArgNames: []string{"l"}, Tuples: c02ListTuples(1, 2, 0), Stream: "corpus"})
	// every operator, every pair of constant kinds, the three chain shapes; x ranges over all kinds
	n := 0
	for _, op := range pgAllOps {
		for i, k1 := range pgConstKinds {
			for j, k2 := range pgConstKinds {
				shape := n % 3
				t := pgChainShape(shape, op, pgConstOf(k1, i+j), pgConstOf(k2, i+j+1), x())
				kx := []string{k1, k2, pgConstKinds[(n/3)%6]}
				ps = append(ps, mk(t, one(c02ArgOfKind(kx[0], n)), one(c02ArgOfKind(kx[1], n+1)), one(c02ArgOfKind(kx[2], n+2))))
				n++
			}
		}
	}
	return ps
}

// ---------- command ----------

func cmdC02(seed int64, tier, outDir string) {
	lim := syscall.Rlimit{Cur: 24 << 30, Max: 24 << 30}
	_ = syscall.Setrlimit(syscall.RLIMIT_AS, &lim)
	c02Setup()
	n, maxNodes := 700, 36
	if tier == "thorough" {
		n, maxNodes = 10000, 90
	}
	sum := NewSummary("C02", seed, tier)
	sum.Rule = "programs of the C01 generator biased to constant sub-expressions (constant operands, constant closures applied to constants, constant lists/maps, constant conditions), chains c op x op c / x op c op c / c op c op x (corpus: every operator x every pair of constant kinds int float string bool list map; generated: typed chains and random ones), string + chains, an impure host function tick(k,x) and a pure one ptick(k,x); each program generated with the default optimizer and with SetOptimizer(nil), 3 argument tuples. Distinct non-trivial: distinct program texts for which the real optimizer returned a different AST than the parser without optimizer and in which at least one variable survives"
	cw := NewCaseWriter(outDir, "From P2 Require Import Base.Prelude Sem.Num Sem.Syntax Sem.Obs Run.C01Run Run.C02Run.", "c02_case", "c02_id", "c02_im", "c02_is", 100)
	cw.epilogue = "Definition c02_counts := Eval vm_compute in c02_stats cases.\nPrint c02_counts.\n"
	run := &c02State{sum: sum, cw: cw}
	finish := func() {
		cw.Flush()
		sum.CaseFiles = cw.files
		if run.allOut > 0 {
			share := float64(run.errs) / float64(run.allOut)
			sum.Extra["error_outcome_share"] = math.Round(share*1000) / 1000
		}
		sort.SliceStable(sum.GoViolations, func(i, j int) bool {
			return len(fmt.Sprint(sum.GoViolations[i].Human["text"])) < len(fmt.Sprint(sum.GoViolations[j].Human["text"]))
		})
		sum.Write(outDir)
	}
	if optReplay != "" {
		var p pgProgram
		if err := json.Unmarshal(loadReplayCase(), &p); err != nil {
			fatal("replay case: %v", err)
		}
		if p.Host != "" {
			run.hostCase(&p, 1)
			finish()
			return
		}
		cw.epilogue += "Definition c02_expected := Eval vm_compute in map c02_explain cases.\nPrint c02_expected.\n"
		// the AST tie of the replayed case: its class (Run/C02Run.v c02_tie_class) and the tree the optimizer MODEL returns
		cw.epilogue += "Definition c02_tie := Eval vm_compute in map (fun c => (c02_tie_class c, c02_model_tree c)) cases.\nPrint c02_tie.\n"
		run.runCase(&p, 1)
		finish()
		return
	}
	n *= optBoost
	id := 0
	for _, p := range append(append(c02Corpus(), c02SwitchFamily()...), pgStrCorpus()...) {
		id++
		run.runCase(p, id)
	}
	sum.Extra["corpus_cases"] = id
	// the host registration API family (Go-side oracles only)
	for _, cfg := range c02HostConfigs() {
		for _, p := range c02HostPrograms(cfg) {
			id++
			run.hostCase(p, id)
		}
	}
	r := NewRng(seed)
	for i := 0; i < n; i++ {
		id++
		if r.Chance(0.03) {
			t := pgFieldNamedLikeMethod(pgMapMethodNames[r.Pick(len(pgMapMethodNames))], 1+r.Pick(3), r.Pick(4), r.Chance(0.4), r.Chance(0.5))
			if r.Chance(0.5) {
				t = pgNList(pgNTry(pgNIf(pgNId("true"), t, pgNInt(0)), pgNStr("error")), pgNId("x"))
			}
			run.runCase(&pgProgram{T: t, ArgNames: []string{"x"}, Tuples: [][]*Tree{{c01Ti(5)}, {c01Ti(1)}, {c01Ti(-7)}}, Stream: "field-named-like-method"}, id)
			continue
		}
		if r.Chance(0.05) {
			run.runCase(c02SharedConstProgram(r.Pick(7), int64(r.Pick(4)), int64(4+r.Pick(4)), r.Pick(3)), id)
			continue
		}
		run.runCase(pgGenProgramMode(r, c01Statics, maxNodes, true), id)
	}
	finish()
}
