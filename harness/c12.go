package main

// C12 - Parse, Generate and evaluation leave no goroutine behind.
//
// (1) every input of the C04 streams: Generate is called N times (200 for small inputs) in a worker process; after a
//     grace period the goroutine dump of the runtime is filtered by frames of parser2 / iterator; compared in Coq
//     (Run/C12Run.v) with the prediction of the protocol model Conc/TokChan.v for the token stream of the scanner model
//     and the number of receives the parser performed (hook VerifParseReceived): c12_im measured = N x predicted,
//     c12_is measured = 0.
// (2) pipelines with every early-stopping consumer and every error path over parallel map/accept (forced by a sleeping
//     host function, the switch is verified by the goroutine ids the host function saw), merge and multiUse:
//     goroutines left = 0 and, for merge, CPU time consumed in the 300 ms after the grace period below 200 ms.
// Signatures of violations: (goroutine kind, how the consumer stopped).

import (
	"bufio"
	"bytes"
	"encoding/json"
	"fmt"
	"io"
	"log"
	"os"
	"os/exec"
	"path/filepath"
	"sort"
	"strings"
	"sync"
	"time"
)

func init() {
	register("c12", cmdC12)
	register("c12worker", cmdC12Worker)
}

func c12Pipes(tier string) []C12Pipe {
	var ps []C12Pipe
	stages := []struct{ name, expr string; n int64 }{
		{"pmap", "numbers(n).map(x->slow(x))", 200},
		{"paccept", "numbers(n).accept(x->slow(x)>=0)", 200},
		{"merge", "numbers(n).merge(numbers(n),(a,b)->a<b)", 100000000000},
		{"pmap+merge", "numbers(n).map(x->slow(x)).merge(numbers(n),(a,b)->a<b)", 200},
	}
	consumers := []struct{ name, pre, post, stop string }{
		{"first", "", ".first()", "early"},
		{"top+size", "", ".top(20).size()", "early"},
		{"present", "", ".present(x->x=30)", "early"},
		{"indexWhere", "", ".indexWhere(x->x=30)", "early"},
		{"single", "", ".single()", "error"},
		{"contains", "[30,31]~", "", "early"},
		{"size", "", ".size()", "complete"},
		{"sum", "", ".sum()", "complete"},
	}
	for _, s := range stages {
		for _, c := range consumers {
			if s.n > 1000000 && c.stop == "complete" {
				continue // 10^11 elements cannot be consumed
			}
			ps = append(ps, C12Pipe{Name: s.name + "/" + c.name, Prog: c.pre + s.expr + c.post, Stage: s.name, Stop: c.stop, N: s.n})
		}
	}
	// error paths
	ps = append(ps,
		C12Pipe{Name: "pmap/error-in-mapper", Prog: "numbers(n).map(x->fail(x,40)).sum()", Stage: "pmap", Stop: "error", N: 200},
		C12Pipe{Name: "pmap/error-in-mapper-size", Prog: "numbers(n).map(x->fail(x,40)).size()", Stage: "pmap", Stop: "error", N: 200},
		C12Pipe{Name: "paccept/error-in-predicate", Prog: "numbers(n).accept(x->fail(x,40)>=0).sum()", Stage: "paccept", Stop: "error", N: 200},
		C12Pipe{Name: "merge/error-in-less", Prog: "numbers(n).merge(numbers(n),(a,b)->a<\"s\").sum()", Stage: "merge", Stop: "error", N: 100000000000},
		C12Pipe{Name: "merge/error-in-source", Prog: "numbers(n).map(x->fail(x,3)).merge(numbers(n),(a,b)->a<b).sum()", Stage: "merge", Stop: "error", N: 100000000000},
		C12Pipe{Name: "merge/one-side-short", Prog: "numbers(5).merge(numbers(n),(a,b)->a<b).top(50).sum()", Stage: "merge", Stop: "early", N: 100000000000},
		// multiUse
		C12Pipe{Name: "multiuse/first+sum", Prog: "numbers(n).multiUse({a:l->l.first(),b:l->l.sum()}).b", Stage: "multiuse", Stop: "early", N: 200},
		C12Pipe{Name: "multiuse/top+size", Prog: "numbers(n).multiUse({a:l->l.size(),b:l->l.top(3).sum()}).a", Stage: "multiuse", Stop: "early", N: 200},
		C12Pipe{Name: "multiuse/all-stop-early", Prog: "numbers(n).multiUse({a:l->l.first(),b:l->l.top(3).sum()}).a", Stage: "multiuse", Stop: "early", N: 100000},
		C12Pipe{Name: "multiuse/complete", Prog: "numbers(n).multiUse({a:l->l.size(),b:l->l.sum()}).b", Stage: "multiuse", Stop: "complete", N: 200},
		C12Pipe{Name: "multiuse/error-in-consumer", Prog: "numbers(n).multiUse({a:l->l.map(x->x%0).sum(),b:l->l.sum()}).b", Stage: "multiuse", Stop: "error", N: 200},
		C12Pipe{Name: "multiuse/error-in-source", Prog: "numbers(n).map(x->fail(x,5)).multiUse({a:l->l.size(),b:l->l.sum()}).b", Stage: "multiuse", Stop: "error", N: 200},
		C12Pipe{Name: "multiuse+pmap/early", Prog: "numbers(n).multiUse({a:l->l.map(x->slow(x)).first(),b:l->l.size()}).b", Stage: "multiuse+pmap", Stop: "early", N: 200},
		C12Pipe{Name: "multiuse+pmap/error", Prog: "numbers(n).multiUse({a:l->l.map(x->fail(x,40)).sum(),b:l->l.sum()}).b", Stage: "multiuse+pmap", Stop: "error", N: 200},
	)
	// ---- an UPSTREAM stage panics (not: fails) while the goroutine-starting construct is reading it
	panics := []struct{ name, pre, call string }{
		{"guard", "func f(k) if k=0 then 0 else 1+f(k-1); ", "f(20000+0*%s)"}, // runs into the 10000-slot stack limit
		{"host-panic", "", "hpanic(%s,%d)"},
		{"runtime-error", "", "hnil(%s,%d)"},
	}
	upstream := []struct{ name, expr string }{ // %s = the panicking call on the element
		{"combine", "numbers(n).combine((p,q)->%s)"},
		{"map", "numbers(n).map(q->%s)"},
		{"accept", "numbers(n).accept(q->%s>=0)"},
		{"number", "numbers(n).number((i,q)->%s)"},
	}
	constructs := []struct{ name, stage, expr string; late bool }{
		{"multiuse-complete", "multiuse", "%s.multiUse({a:l->l.size(),b:l->l.sum()}).a", false},
		{"multiuse-early", "multiuse", "%s.multiUse({a:l->l.first(),b:l->l.top(3).size()}).a", false},
		{"multiuse-one", "multiuse", "%s.multiUse({a:l->l.size()}).a", false},
		{"merge-sum", "merge", "%s.merge(numbers(n),(a,b)->a<b).sum()", false},
		{"merge-first", "merge", "numbers(n).merge(%s,(a,b)->a<b).top(90).size()", false},
		{"pmap-sum", "pmap", "%s.map(y->slow(y)).sum()", true},
		{"paccept-first", "paccept", "%s.accept(y->slow(y)>=0).top(60).size()", true},
	}
	for _, pk := range panics {
		for _, up := range upstream {
			for _, co := range constructs {
				k := 1
				if co.late {
					k = 40 // behind the switch to parallel execution
				}
				call := pk.call
				if strings.Count(call, "%") == 2 {
					call = fmt.Sprintf(call, "q", k)
				} else if co.late {
					call = "if q>=40 then " + fmt.Sprintf(call, "q") + " else q"
				} else {
					call = fmt.Sprintf(call, "q")
				}
				src := fmt.Sprintf(up.expr, call)
				ps = append(ps, C12Pipe{Name: "source-panics/" + pk.name + "/" + up.name + "/" + co.name, Prog: pk.pre + fmt.Sprintf(co.expr, src), Stage: co.stage, Stop: "panic", N: 200})
			}
		}
	}
	// ---- merge over long lazy operands, left by a PANIC on the evaluating goroutine: raised by the less function, by the
	// closure of the stage that consumes the merged list (reduce, mapReduce, present run it on the caller's stack), by
	// the stack guard of a runaway recursion - plain and inside try/catch (the panic is recovered there or at the top)
	deep := "func deep(k) if k=0 then 0 else deep(k-1)+1; "
	big := int64(100000000000)
	mergeLeft := []struct{ name, pre, body string }{
		{"less/host-panic", "", "numbers(n).merge(numbers(n),(a,b)->hpanic(a,3)<b).sum()"},
		{"less/runtime-error", "", "numbers(n).merge(numbers(n),(a,b)->hnil(a,3)<b).sum()"},
		{"less/guard", deep, "numbers(n).merge(numbers(n),(a,b)->if a>3 then deep(20000)<b else a<b).sum()"},
		{"reduce/host-panic", "", "numbers(n).merge(numbers(n),(a,b)->a<b).reduce((a,b)->hpanic(b,3))"},
		{"reduce/guard", deep, "numbers(n).merge(numbers(n),(a,b)->a<b).reduce((a,b)->if b>3 then deep(20000) else a+b)"},
		{"mapReduce/host-panic", "", "numbers(n).merge(numbers(n),(a,b)->a<b).mapReduce(0,(s,e)->s+hnil(e,3))"},
		{"present/host-panic", "", "numbers(n).merge(numbers(n),(a,b)->a<b).present(e->hpanic(e,3)=7)"},
		{"map-downstream/host-panic", "", "numbers(n).merge(numbers(n),(a,b)->a<b).map(e->hpanic(e,3)).sum()"},
		{"operand/host-panic", "", "numbers(n).merge(numbers(n).combine((p,q)->hpanic(q,3)),(a,b)->a<b).sum()"},
	}
	for _, ml := range mergeLeft {
		ps = append(ps, C12Pipe{Name: "merge-left-by-panic/" + ml.name, Prog: ml.pre + ml.body, Stage: "merge", Stop: "left-by-panic", N: big},
			C12Pipe{Name: "merge-left-by-panic/" + ml.name + "/try", Prog: ml.pre + "try " + ml.body + " catch e->0-1", Stage: "merge", Stop: "left-by-panic", N: big})
	}
	// ---- multiUse maps with every mix of valid and invalid entries in every order: nothing may be started
	// before the whole map has been validated
	entries := []string{"l->l.size()", "l->l.sum()", "3", "(x,y)->x", "\"s\""}
	keys := []string{"a", "b", "c"}
	var mixes [][]int
	for i := range entries {
		mixes = append(mixes, []int{i})
		for j := range entries {
			mixes = append(mixes, []int{i, j})
			for k := range entries {
				mixes = append(mixes, []int{i, j, k})
			}
		}
	}
	cnt := 0
	for _, mx := range mixes {
		invalid := false
		for _, e := range mx {
			invalid = invalid || e >= 2
		}
		if !invalid {
			continue
		}
		cnt++
		if tier != "thorough" && len(mx) == 3 && cnt%4 != 0 {
			continue
		}
		var es []string
		for i, e := range mx {
			es = append(es, keys[i]+":"+entries[e])
		}
		ps = append(ps, C12Pipe{Name: fmt.Sprintf("multiuse-invalid-map/%v", mx), Prog: "numbers(n).multiUse({" + strings.Join(es, ",") + "})", Stage: "multiuse", Stop: "error", N: 200})
	}
	// a consumer that never reads: CopyProducer gives up after 5 s (the ATimeout path of Conc/MultiUse.v); one call
	ps = append(ps, C12Pipe{Name: "multiuse/consumer-never-reads", Prog: "numbers(n).multiUse({a:l->1,b:l->l.sum()}).a", Stage: "multiuse", Stop: "error", N: 200},
		C12Pipe{Name: "multiuse/consumer-never-reads-first", Prog: "numbers(n).multiUse({b:l->l.sum(),a:l->1}).a", Stage: "multiuse", Stop: "error", N: 200})
	return ps
}

// c12Exec runs jobs in worker processes; a worker that stops early is restarted behind the last reported job
func c12Exec(jobs []C12Job, dir string, par int) (map[int]*C12Result, map[int]string) {
	bin := os.Getenv("P2H")
	if bin == "" {
		bin, _ = os.Executable()
	}
	os.MkdirAll(dir, 0o755)
	batches := make([][]C12Job, par)
	for i, j := range jobs {
		batches[i%par] = append(batches[i%par], j)
	}
	results := map[int]*C12Result{}
	died := map[int]string{}
	var mu sync.Mutex
	var wg sync.WaitGroup
	for bi, batch := range batches {
		if len(batch) == 0 {
			continue
		}
		wg.Add(1)
		go func(bi int, todo []C12Job) {
			defer wg.Done()
			for round := 0; len(todo) > 0 && round < 100; round++ {
				in := filepath.Join(dir, fmt.Sprintf("in-%d-%d.json", bi, round))
				bs, _ := json.Marshal(todo)
				os.WriteFile(in, bs, 0o644)
				cmd := exec.Command(bin, "c12worker", "--out", in)
				var stdout, stderr bytes.Buffer
				cmd.Stdout, cmd.Stderr = &stdout, &stderr
				err := cmd.Run()
				seen := 0
				sc := bufio.NewScanner(&stdout)
				sc.Buffer(make([]byte, 1<<20), 1<<26)
				for sc.Scan() {
					var r C12Result
					if json.Unmarshal(sc.Bytes(), &r) == nil && seen < len(todo) && r.ID == todo[seen].ID {
						rr := r
						mu.Lock()
						results[r.ID] = &rr
						mu.Unlock()
						seen++
					}
				}
				if seen >= len(todo) {
					break
				}
				code := 0
				if ee, ok := err.(*exec.ExitError); ok {
					code = ee.ExitCode()
				}
				if code != 3 && code != 4 {
					// the process died while it was running the job behind the last reported one
					mu.Lock()
					died[todo[seen].ID] = fmt.Sprintf("worker process died (exit %d): %s", code, c6PanicLine(stderr.String()))
					mu.Unlock()
					seen++
				}
				todo = todo[seen:]
			}
		}(bi, batch)
	}
	wg.Wait()
	return results, died
}

func c12Kinds(k map[string]int) string {
	var ks []string
	for _, n := range sortedKeys(k) {
		ks = append(ks, fmt.Sprintf("%s:%d", n, k[n]))
	}
	return strings.Join(ks, " ")
}

// the goroutine kind that names a finding: the one that blocks the others
func c12MainKind(k map[string]int) string {
	for _, n := range []string{"tokenizer", "tochan-producer", "worker", "worker-waiter", "collector", "multiuse-consumer", "other"} {
		if k[n] > 0 {
			return n
		}
	}
	return "none"
}

func cmdC12(seed int64, tier, outDir string) {
	sum := NewSummary("C12", seed, tier)
	sum.Rule = "(1) the input streams of C04 (corpus, insertions at every position, random bytes, token soup, mutated programs, long inputs; the 30000-deep inputs are left to C04) x generators x {comments, comfort}: Generate called 200 times per input (50 for inputs over 1 KB, 3 over 4 KB) in a worker process, goroutines with parser2/iterator frames counted after a grace period (100 ms doubling to 2 s while the count falls); (2) pipelines: {parallel map, parallel accept, merge, parallel map feeding merge} x {first, top+size, present, indexWhere, single, ~, size, sum} plus error paths in mapper, predicate, less, source, and multiUse with early-stopping / failing / complete consumers, each evaluated N times. Non-trivial = an input whose parse stops with at least one token unsent (distinct by generator, configuration, unsent count class, error message class), or a pipeline whose consumer stops before the source ends (distinct by name)"
	log.SetOutput(io.Discard)
	cw := NewCaseWriter(outDir, "From P2 Require Import Base.Prelude Lex.Token Lex.Tok Run.C15Run Run.C04Run Run.C12Run.", "c12_case", "c12_id", "c12_im", "c12_is", 250)
	base := c04CoqTables()
	cw.prelude = base

	var jobs []C12Job
	if optReplay != "" {
		var j C12Job
		if err := json.Unmarshal(loadReplayCase(), &j); err != nil {
			fatal("replay case: %v", err)
		}
		j.ID = 1
		jobs = []C12Job{j}
	} else {
		calls := 30
		if tier == "thorough" {
			calls = 100
		}
		for _, p := range c12Pipes(tier) {
			pp := p
			n := calls * optBoost
			if strings.Contains(p.Name, "never-reads") {
				n = 1
			}
			if strings.Contains(p.Name, "/guard/") {
				// every evaluation runs into the 10000-slot stack limit (about 0.1 s, per element behind a parallel stage)
				n = (n + 5) / 6
			}
			jobs = append(jobs, C12Job{ID: len(jobs) + 1, Pipe: &pp, Calls: n})
		}
		for _, c := range c04Streams(seed, tier, optBoost) {
			cc := c
			n := len(c04Text(c.Segs))
			if c.Src == "fold-cost" {
				// seconds of constant folding per Generate: a matter of time (C04), not of goroutines
				sum.Skipped["fold-cost stream: left to C04"]++
				continue
			}
			if c.Deep > 0 && n > 8000 {
				sum.Skipped["deep input: left to C04"]++
				continue
			}
			k := 200
			if n > 4096 {
				k = 3
			} else if n > 1024 {
				k = 50
			}
			if c.Src == "fold-bomb" && k > 20 {
				k = 20 // a fold that runs into the stack limit costs up to 0.1 s per call
			}
			jobs = append(jobs, C12Job{ID: len(jobs) + 1, Case: &cc, Calls: k})
		}
	}
	t0 := time.Now()
	results, died := c12Exec(jobs, filepath.Join(outDir, "work"), 16)
	sum.Extra["worker_phase_s"] = time.Since(t0).Seconds()

	for i := range jobs {
		j := &jobs[i]
		if msg, ok := died[j.ID]; ok {
			human := map[string]any{"repro": j, "signature": "crash", "what": msg}
			sum.Cases[fmt.Sprint(j.ID)] = human
			sum.GoViolations = append(sum.GoViolations, GoViolation{CaseID: j.ID, What: msg, Sig: "crash", Human: human, Expected: "evaluation returns", Observed: "process died"})
			continue
		}
		r := results[j.ID]
		if r == nil {
			sum.Skipped["not-run"]++
			continue
		}
		sum.Evaluations++
		if j.Pipe != nil {
			p := j.Pipe
			kind := 0
			switch {
			case strings.Contains(p.Stage, "pmap") || strings.Contains(p.Stage, "paccept"):
				if r.Switched {
					kind = 1
				} else if strings.Contains(p.Stage, "merge") {
					kind = 2
				} else if strings.Contains(p.Stage, "multiuse") {
					kind = 3
				}
			case strings.Contains(p.Stage, "merge"):
				kind = 2
			case strings.Contains(p.Stage, "multiuse"):
				kind = 3
			}
			if (strings.Contains(p.Stage, "pmap") || strings.Contains(p.Stage, "paccept")) && !r.Switched {
				sum.Count("pipeline_switch", "stage stayed sequential")
			} else if kind == 1 {
				sum.Count("pipeline_switch", "parallel (verified by goroutine ids)")
			}
			early := p.Stop != "complete"
			how := map[string]string{"early": "consumer-stops-early", "error": "error", "complete": "complete", "panic": "source-panics", "left-by-panic": "left-by-panic"}[p.Stop]
			sig := "model/" + p.Name
			if r.Left > 0 {
				sig = c12MainKind(r.Kinds) + "/" + how
			} else if r.CpuMs > 200 {
				sig = "background-cpu/" + how
			}
			human := map[string]any{"pipeline": p.Prog, "n": p.N, "name": p.Name, "evaluations": r.Calls, "outcome": r.Outcome, "goroutines_left": r.Left, "kinds": c12Kinds(r.Kinds),
				"cpu_ms_in_300ms_after": r.CpuMs, "run_ms": r.RunMs, "parallel": r.Switched, "waited_ms": r.WaitedMs, "repro": j, "signature": sig}
			sum.Cases[fmt.Sprint(j.ID)] = human
			sum.Count("pipeline_stage", p.Stage)
			sum.Count("pipeline_stop", p.Stop)
			sum.Count("pipeline_left", fmt.Sprintf("%s %s: %s", p.Stage, p.Stop, bucket(r.Left)))
			if early {
				sum.Nontriv("pipe " + p.Name)
			}
			sum.Sample(human)
			if r.Left > 0 || r.CpuMs > 200 {
				what := fmt.Sprintf("%d evaluations of %s left %d goroutines behind (%s)", r.Calls, p.Prog, r.Left, c12Kinds(r.Kinds))
				if r.Left == 0 {
					what = fmt.Sprintf("%d evaluations of %s: %d ms of CPU in the 300 ms after the evaluations had returned", r.Calls, p.Prog, r.CpuMs)
				}
				sum.GoViolations = append(sum.GoViolations, GoViolation{CaseID: j.ID, What: what, Sig: sig, Human: human, Expected: "0 goroutines, no background CPU", Observed: fmt.Sprintf("%d goroutines, %d ms CPU", r.Left, r.CpuMs)})
			}
			stages := strings.Count(p.Prog, ".map(") + strings.Count(p.Prog, ".accept(")
			if stages < 1 {
				stages = 1
			}
			// every map/accept stage of the pipeline may have switched to parallel execution (a fast stage in front of a
			// slow one measures the time it is blocked by it): workers and waiters of all of them
			cw.Add(fmt.Sprintf("CPipe %d %d %s %d %d %d %d", j.ID, kind, CoqBool(early), r.NW*stages+stages-1, r.Calls, r.Left, r.CpuMs))
			continue
		}
		c := j.Case
		src := c04Text(c.Segs)
		unsent := r.Total - r.Received
		sig := "model/" + c.Src
		if r.Left > 0 {
			how := "end-of-stream"
			if unsent > 0 {
				how = "syntax-error-with-unsent-tokens"
			}
			sig = c12MainKind(r.Kinds) + "/" + how
		}
		show := src
		if len(show) > 200 {
			show = show[:100] + " ... " + show[len(show)-60:]
		}
		human := map[string]any{"input": fmt.Sprintf("%q", show), "bytes": len(src), "generator": c.Gen, "comments": c.Comments, "comfort": c.Comfort, "stream": c.Src,
			"calls": r.Calls, "outcome": r.Outcome, "tokens": r.Total, "received_by_parser": r.Received, "goroutines_left": r.Left, "kinds": c12Kinds(r.Kinds), "waited_ms": r.WaitedMs, "repro": j, "signature": sig}
		sum.Cases[fmt.Sprint(j.ID)] = human
		sum.Count("stream", strings.SplitN(c.Src, "/", 2)[0])
		sum.Count("generator", c.Gen)
		sum.Count("outcome", r.Outcome)
		sum.Count("calls", fmt.Sprint(r.Calls))
		sum.Count("unsent_tokens", bucket(unsent))
		sum.Count("input_bytes", bucketBig(len(src)))
		if r.WaitedMs >= 100 {
			sum.Count("grace_period", ">=100ms")
		} else {
			sum.Count("grace_period", "<100ms")
		}
		if unsent > 0 {
			sum.Nontriv(fmt.Sprintf("%s %v %v %s %s", c.Gen, c.Comments, c.Comfort, bucket(unsent), c04ErrClass(r.Outcome)))
			if len(sum.Samples) < 5 {
				sum.Sample(human)
			}
		}
		if r.Left > 0 {
			sum.GoViolations = append(sum.GoViolations, GoViolation{CaseID: j.ID, What: fmt.Sprintf("%d calls of Generate left %d goroutines behind (%s); the parser had received %d of %d tokens", r.Calls, r.Left, c12Kinds(r.Kinds), r.Received, r.Total),
				Sig: sig, Human: human, Expected: "0 goroutines", Observed: fmt.Sprintf("%d goroutines", r.Left)})
		}
		if c.Src == "fold-bomb" && j.ID%8 != 0 && optReplay == "" {
			// small valid programs from fixed templates: the goroutine count is judged above, 1 in 8 goes through the model
			sum.Skipped["fold-bomb stream: goroutines judged in Go, not sent to Coq (1 in 8 is)"]++
			continue
		}
		var defs strings.Builder
		in := c04CoqSegs(c04InputRuns(src), fmt.Sprintf("c%di", j.ID), "N", &defs)
		big := len(src) > 6000
		if big {
			cw.Flush()
			cw.prelude = base
		}
		cw.prelude += defs.String()
		cw.Add(fmt.Sprintf("CTok %d %s %s %d %d %d %d", j.ID, c04CoqCfg(c.Gen, c.Comments, c.Comfort, src), in, r.Received, r.Total, r.Calls, r.Left))
		if big {
			cw.Flush()
		}
		if len(cw.cur) == 0 {
			cw.prelude = base
		}
	}
	cw.Flush()
	sum.CaseFiles = cw.files
	sort.SliceStable(sum.GoViolations, func(i, j int) bool {
		a, _ := sum.GoViolations[i].Human["bytes"].(int)
		b, _ := sum.GoViolations[j].Human["bytes"].(int)
		return a < b
	})
	sum.Write(outDir)
}
