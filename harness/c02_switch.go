package main

// c02SwitchFamily: switch whose VALUE is constant (a literal, a folded expression, a let-bound computed constant) while the
// case labels mix constants and labels known only at run time (argument-dependent, impure), in every order. The evaluator
// tests the labels in order, so a constant label equal to the switch value must not win over an earlier run-time label that
// matches, and an impure label in front of it has to be evaluated exactly as often as without the optimizer
// (seeded/C02-h: a "constant switch" fold that took the first EQUAL constant label although a run-time label stood before it).
func c02SwitchFamily() []*pgProgram {
	x := func() *pgNode { return pgNId("x") }
	one := func(v *Tree) []*Tree { return []*Tree{v} }
	mk := func(t *pgNode) *pgProgram {
		return &pgProgram{T: t, ArgNames: []string{"x"}, Tuples: [][]*Tree{one(c01Ti(2)), one(c01Ti(1)), one(c01Ti(-7))}, Stream: "corpus"}
	}
	tick := func(k int64, e *pgNode) *pgNode { return pgNCall("static", pgNId("tick"), pgNInt(k), e) }
	res := func(k int64) *pgNode { return pgNInt(100 + k) }
	values := []func() *pgNode{
		func() *pgNode { return pgNInt(2) },
		func() *pgNode { return pgNOp("+", pgNInt(1), pgNInt(1)) },
		func() *pgNode { return pgNId("true") },
	}
	var ps []*pgProgram
	for vi, val := range values {
		var rt, rtImpure, cEq, cNe func() *pgNode
		if vi < 2 {
			rt = func() *pgNode { return x() }                               // equals 2 for the first tuple only
			rtImpure = func() *pgNode { return tick(1, x()) }                // impure label
			cEq = func() *pgNode { return pgNInt(2) }                        // constant, equal
			cNe = func() *pgNode { return pgNOp("+", pgNInt(3), pgNInt(4)) } // constant after folding, not equal
		} else {
			rt = func() *pgNode { return pgNOp("<", x(), pgNInt(2)) }
			rtImpure = func() *pgNode { return tick(1, pgNOp("=", x(), pgNInt(2))) }
			cEq = func() *pgNode { return pgNId("true") }
			cNe = func() *pgNode { return pgNOp("<", pgNInt(2), pgNInt(1)) }
		}
		labelSets := [][]func() *pgNode{
			{rt, cEq}, {cEq, rt}, {rt, cNe, cEq}, {cNe, rt, cEq}, {rtImpure, cEq}, {cNe, rtImpure, cEq}, {cEq, rtImpure},
			{rt, rt, cEq}, {cNe, cNe, rt}, {rt, cNe}, {rtImpure, cNe, rt, cEq}, {cNe}, {cEq}, {rtImpure},
		}
		for _, ls := range labelSets {
			var cases [][2]*pgNode
			for i, l := range ls {
				cases = append(cases, [2]*pgNode{l(), res(int64(i))})
			}
			ps = append(ps, mk(pgNSwitch(val(), cases, res(9))))
			// the same behind a let-bound computed constant, and with results that are ticks (which branch runs)
			var cases2 [][2]*pgNode
			for i, l := range ls {
				cases2 = append(cases2, [2]*pgNode{l(), tick(int64(10+i), x())})
			}
			ps = append(ps, mk(pgNLet("mode", val(), pgNSwitch(pgNId("mode"), cases2, tick(19, x())))))
		}
	}
	return ps
}
