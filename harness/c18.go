package main

// C18 - XML and HTML export are well-formed and data can never inject markup.
//
// xml cases:  value tree -> export.XML() -> (a) bytes compared with the Coq model of xmlWriter + xml.go,
//             (b) the Coq specification parser compared with encoding/xml (tree after the same white-space rule),
//             (c) specification: the document, read back by the documented format (list/entry/map/key), gives the
//                 value (Coq: xml_parse + xml_decode = proj v; Go oracle: encoding/xml + decodeDoc = expectXML).
// html cases: value tree with Format/Link/File wrappers, styles, closures -> export.ToHtml ->
//             (a) bytes compared with the Coq model of the ToHtml core where the case is inside the core,
//             (b) Coq spec parser (fragment) compared with encoding/xml, names from the constant sets,
//             (c) Go oracle: the same value with every data string replaced by an inert placeholder must give the
//                 same element/attribute skeleton, and every text / attribute value of the real output must be the
//                 placeholder text with the original strings substituted (data only ever lands in text or
//                 attribute values, decoded exactly); failures must come back as errors, never as panics.

import (
	"bytes"
	"encoding/base64"
	"encoding/json"
	"encoding/xml"
	"errors"
	"fmt"
	"html/template"
	"io"
	"math"
	"regexp"
	"sort"
	"strconv"
	"strings"
	"sync"

	"github.com/hneemann/iterator"
	"github.com/hneemann/parser2/funcGen"
	"github.com/hneemann/parser2/listMap"
	"github.com/hneemann/parser2/value"
	"github.com/hneemann/parser2/value/export"
	"github.com/hneemann/parser2/value/export/xmlWriter"
)

func init() {
	register("c18", cmdC18)
	registerTables(func(outDir string) {
		var b strings.Builder
		b.WriteString(genHeader)
		b.WriteString("(* xmlWriter.Write on every one-rune string: exceptions to the identity *)\n")
		tt, _ := sweepTable("xml_text_tbl", xmlTextEscapeOf)
		b.WriteString(tt)
		b.WriteString("\n(* xmlWriter.Attr on every one-rune value: exceptions to the identity *)\n")
		ta, _ := sweepTable("xml_attr_tbl", xmlAttrEscapeOf)
		b.WriteString(ta)
		writeIfChanged(outDir+"/XmlEscapes.v", b.String())
	})
}

// the real writeEsc(s,false) through the public Write
func xmlTextEscapeOf(s string) ([]rune, bool) {
	return []rune(xmlWriter.New().Write(s).String()), true
}

// the real writeEsc(s,true) through the public Attr
func xmlAttrEscapeOf(s string) ([]rune, bool) {
	out := xmlWriter.New().Open("a").Attr("k", s).String()
	const pre = "<a k=\""
	if !strings.HasPrefix(out, pre) || !strings.HasSuffix(out, "\"") || len(out) < len(pre)+1 {
		return []rune(out), false
	}
	return []rune(out[len(pre) : len(out)-1]), true
}

// ---------------------------------------------------------------- value trees

type XT struct {
	Kind    string   `json:"k"` // int float bool str list map format link file closure nil
	I       int      `json:"i,omitempty"`
	FBits   uint64   `json:"f,omitempty"`
	B       bool     `json:"b,omitempty"`
	S       string   `json:"s,omitempty"` // string value | link target | file name | closure source
	Items   []*XT    `json:"items,omitempty"`
	Keys    []string `json:"keys,omitempty"`
	Repr    string   `json:"repr,omitempty"`
	Style   *XT      `json:"style,omitempty"` // format: str | map | closure
	Cell    bool     `json:"cell,omitempty"`
	ColSpan int      `json:"colspan,omitempty"`
	Mime    string   `json:"mime,omitempty"`
	Data    []byte   `json:"data,omitempty"`
}

func xs(s string) *XT  { return &XT{Kind: "str", S: s} }
func xi(i int) *XT     { return &XT{Kind: "int", I: i} }
func xl(it ...*XT) *XT { return &XT{Kind: "list", Repr: "eager", Items: it} }
func xm(kv ...any) *XT {
	t := &XT{Kind: "map", Repr: "listmap"}
	for i := 0; i+1 < len(kv); i += 2 {
		t.Keys = append(t.Keys, kv[i].(string))
		t.Items = append(t.Items, kv[i+1].(*XT))
	}
	return t
}
func xfmt(style *XT, v *XT) *XT { return &XT{Kind: "format", Style: style, Items: []*XT{v}} }
func xlink(l string, v *XT) *XT { return &XT{Kind: "link", S: l, Items: []*XT{v}} }

func buildList(items []value.Value, repr string) value.Value {
	base := value.NewList(items...)
	switch repr {
	case "iter-fail":
		// a lazy list whose iteration yields the items and then an error instead of the next element
		return value.NewListFromIterable(func(st funcGen.Stack[value.Value]) iterator.Producer[value.Value] {
			return func(yield iterator.Consumer[value.Value]) {
				for _, it := range items {
					if !yield(it, nil) {
						return
					}
				}
				yield(nil, errors.New("boom: the next element cannot be produced"))
			}
		})
	case "lazy-map":
		return mustEval("l.map(e->e)", []string{"l"}, base)
	case "lazy-accept":
		return mustEval("l.accept(e->true)", []string{"l"}, base)
	case "append":
		if len(items) == 0 {
			return base
		}
		return mustEval("l.append(x)", []string{"l", "x"}, value.NewList(items[:len(items)-1]...), items[len(items)-1])
	case "concat":
		k := len(items) / 2
		return mustEval("a+b", []string{"a", "b"}, value.NewList(items[:k]...), value.NewList(items[k:]...))
	}
	return base
}

func buildMap(keys []string, vals []value.Value, repr string) value.Value {
	mk := func(lo, hi int) value.Map {
		lm := listMap.New[value.Value](hi - lo)
		for i := lo; i < hi; i++ {
			lm = lm.Append(keys[i], vals[i])
		}
		return value.NewMap(lm)
	}
	n := len(keys)
	switch repr {
	case "real":
		rm := value.RealMap{}
		for i, k := range keys {
			rm[k] = vals[i]
		}
		return value.NewMap(rm)
	case "put":
		if n == 0 {
			return mk(0, 0)
		}
		return mustEval("m.put(k,v)", []string{"m", "k", "v"}, mk(0, n-1), value.String(keys[n-1]), vals[n-1])
	case "merge":
		return mustEval("a+b", []string{"a", "b"}, mk(0, n/2), mk(n/2, n))
	case "eval":
		return mustEval("(a+b).eval()", []string{"a", "b"}, mk(0, n/2), mk(n/2, n))
	case "map-method":
		return mustEval("m.map((k,v)->v)", []string{"m"}, mk(0, n))
	}
	return mk(0, n)
}

var xmlMapReprs = []string{"listmap", "real", "put", "merge", "eval", "map-method"}

func (t *XT) Build() value.Value {
	switch t.Kind {
	case "int":
		return value.Int(t.I)
	case "float":
		return value.Float(math.Float64frombits(t.FBits))
	case "bool":
		return value.Bool(t.B)
	case "str":
		return value.String(t.S)
	case "closure":
		return mustEval(t.S, nil)
	case "nil":
		return nil
	case "list":
		items := make([]value.Value, len(t.Items))
		for i, it := range t.Items {
			items[i] = it.Build()
		}
		return buildList(items, t.Repr)
	case "map":
		vals := make([]value.Value, len(t.Items))
		for i, it := range t.Items {
			vals[i] = it.Build()
		}
		return buildMap(t.Keys, vals, t.Repr)
	case "format":
		f := export.Format{Value: t.Items[0].Build(), Cell: t.Cell, ColSpan: t.ColSpan}
		if t.Style != nil {
			f.Format = t.Style.Build()
		}
		return f
	case "link":
		return export.Link{Link: t.S, Value: t.Items[0].Build()}
	case "file":
		return export.File{Name: t.S, MimeType: t.Mime, Data: t.Data}
	}
	panic("bad XT kind " + t.Kind)
}

func (t *XT) isScalar() bool {
	switch t.Kind {
	case "list", "map", "format", "link":
		return false
	}
	return true
}

func (t *XT) Walk(f func(*XT)) {
	f(t)
	for _, it := range t.Items {
		it.Walk(f)
	}
	if t.Style != nil {
		t.Style.Walk(f)
	}
}

func (t *XT) Depth() int {
	d := 0
	for _, it := range t.Items {
		if x := it.Depth(); x > d {
			d = x
		}
	}
	return d + 1
}

func (t *XT) Human() any {
	switch t.Kind {
	case "int":
		return t.I
	case "float":
		return fmt.Sprint(math.Float64frombits(t.FBits))
	case "bool":
		return t.B
	case "str":
		return fmt.Sprintf("%q", t.S)
	case "closure":
		return "closure " + t.S
	case "nil":
		return "nil"
	case "file":
		return fmt.Sprintf("file(%q,%q,%d bytes)", t.S, t.Mime, len(t.Data))
	case "link":
		return map[string]any{"#link": fmt.Sprintf("%q", t.S), "value": t.Items[0].Human()}
	case "format":
		m := map[string]any{"#format": nil, "cell": t.Cell, "colspan": t.ColSpan, "value": t.Items[0].Human()}
		if t.Style != nil {
			m["#format"] = t.Style.Human()
		}
		return m
	case "list":
		l := []any{t.Repr}
		for _, it := range t.Items {
			l = append(l, it.Human())
		}
		return l
	}
	m := map[string]any{"#repr": t.Repr}
	for i, k := range t.Keys {
		m[fmt.Sprintf("%q", k)] = t.Items[i].Human()
	}
	return m
}

// Coq term of type Exp.Xml.xval: scalars through ToString, map entries in the iteration order of the built value
func (t *XT) CoqXVal(built value.Value) string {
	switch t.Kind {
	case "list":
		sl, err := built.(*value.List).ToSlice(funcGen.NewEmptyStack[value.Value]())
		if err != nil {
			fatal("ToSlice: %v", err)
		}
		parts := make([]string, len(t.Items))
		for i, it := range t.Items {
			parts[i] = it.CoqXVal(sl[i])
		}
		return "VL " + CoqList(parts)
	case "map":
		idx := map[string]int{}
		for i, k := range t.Keys {
			idx[k] = i
		}
		var parts []string
		built.(value.Map).Iter(func(k string, v value.Value) bool {
			parts = append(parts, "("+CoqStr(k)+", "+t.Items[idx[k]].CoqXVal(v)+")")
			return true
		})
		return "VM " + CoqList(parts)
	case "format":
		return "VW true (" + t.Items[0].CoqXVal(built.(export.Format).Value) + ")"
	case "link":
		return "VW false (" + t.Items[0].CoqXVal(built.(export.Link).Value) + ")"
	}
	return "VS " + CoqStr(scalarString(built))
}

// what a reader of the documented XML format must get back: string | []any | []kvPair (sorted by key)
type kvPair struct {
	K string
	V any
}

func (t *XT) expectXML() any {
	switch t.Kind {
	case "format", "link":
		return t.Items[0].expectXML()
	case "list":
		l := []any{}
		for _, it := range t.Items {
			l = append(l, it.expectXML())
		}
		return l
	case "map":
		m := []kvPair{}
		for i, k := range t.Keys {
			m = append(m, kvPair{k, t.Items[i].expectXML()})
		}
		sort.Slice(m, func(i, j int) bool { return m[i].K < m[j].K })
		return m
	}
	return scalarString(t.Build())
}

// ---------------------------------------------------------------- encoding/xml -> tree

type xnode struct {
	Text   string
	IsText bool
	Name   string
	Attrs  [][2]string
	Kids   []*xnode
}

func wsOnly(s string) bool {
	for _, c := range s {
		if c != ' ' && c != '\t' && c != '\n' && c != '\r' {
			return false
		}
	}
	return true
}

func hasEl(n *xnode) bool {
	for _, k := range n.Kids {
		if !k.IsText {
			return true
		}
	}
	return false
}

func qname(n xml.Name) string {
	if n.Space != "" {
		return n.Space + ":" + n.Local
	}
	return n.Local
}

// token stream of a standard parser as a forest; white space that only formats element content is dropped by
// the same rule as in the Coq specification parser (in front of a start tag; in front of an end tag if the element
// has child elements)
func xmlForest(b []byte) ([]*xnode, error) {
	d := xml.NewDecoder(bytes.NewReader(b))
	root := &xnode{}
	stack := []*xnode{root}
	var pend strings.Builder
	flush := func(atEnd bool) {
		cur := stack[len(stack)-1]
		s := pend.String()
		pend.Reset()
		if atEnd && !hasEl(cur) {
			if s == "" {
				return
			}
		} else if wsOnly(s) {
			return
		}
		cur.Kids = append(cur.Kids, &xnode{IsText: true, Text: s})
	}
	first := true
	for {
		tok, err := d.Token()
		if err == io.EOF {
			break
		}
		if err != nil {
			return nil, err
		}
		switch x := tok.(type) {
		case xml.ProcInst:
			if !first || x.Target != "xml" {
				return nil, errors.New("unexpected processing instruction " + x.Target)
			}
		case xml.CharData:
			pend.Write(x)
		case xml.StartElement:
			flush(false)
			n := &xnode{Name: qname(x.Name)}
			for _, a := range x.Attr {
				n.Attrs = append(n.Attrs, [2]string{qname(a.Name), a.Value})
			}
			cur := stack[len(stack)-1]
			cur.Kids = append(cur.Kids, n)
			stack = append(stack, n)
		case xml.EndElement:
			flush(true)
			stack = stack[:len(stack)-1]
		default:
			return nil, fmt.Errorf("unexpected markup %T", tok)
		}
		first = false
	}
	if len(stack) != 1 {
		return nil, errors.New("unclosed element")
	}
	flush(true)
	return root.Kids, nil
}

func (n *xnode) Coq() string {
	if n.IsText {
		return "Tx " + CoqStr(n.Text)
	}
	as := make([]string, len(n.Attrs))
	for i, a := range n.Attrs {
		as[i] = "(" + CoqStr(a[0]) + ", " + CoqStr(a[1]) + ")"
	}
	ks := make([]string, len(n.Kids))
	for i, k := range n.Kids {
		ks[i] = k.Coq()
	}
	return "El " + CoqStr(n.Name) + " " + CoqList(as) + " " + CoqList(ks)
}

func coqForest(f []*xnode) string {
	ks := make([]string, len(f))
	for i, k := range f {
		ks[i] = k.Coq()
	}
	return CoqList(ks)
}

// the documented format: <list><entry>..</entry>..</list>, <map k="v" ../>, <map><entry key="k">..</entry>..</map>
func decodeContent(kids []*xnode) (any, error) {
	switch {
	case len(kids) == 0:
		return "", nil
	case len(kids) == 1 && kids[0].IsText:
		return kids[0].Text, nil
	case len(kids) == 1:
		return decodeDoc(kids[0])
	}
	return nil, errors.New("entry with more than one child")
}

func decodeDoc(n *xnode) (any, error) {
	if n.IsText {
		return n.Text, nil
	}
	switch n.Name {
	case "list":
		if len(n.Attrs) != 0 {
			return nil, errors.New("list element with attributes")
		}
		l := []any{}
		for _, k := range n.Kids {
			if k.IsText || k.Name != "entry" || len(k.Attrs) != 0 {
				return nil, errors.New("list child is not a plain entry element")
			}
			v, err := decodeContent(k.Kids)
			if err != nil {
				return nil, err
			}
			l = append(l, v)
		}
		return l, nil
	case "map":
		m := []kvPair{}
		if len(n.Kids) == 0 {
			for _, a := range n.Attrs {
				m = append(m, kvPair{a[0], a[1]})
			}
			return m, nil
		}
		if len(n.Attrs) != 0 {
			return nil, errors.New("map element with attributes and children")
		}
		for _, k := range n.Kids {
			if k.IsText || k.Name != "entry" || len(k.Attrs) != 1 || k.Attrs[0][0] != "key" {
				return nil, errors.New("map child is not an entry element with exactly the key attribute")
			}
			v, err := decodeContent(k.Kids)
			if err != nil {
				return nil, err
			}
			m = append(m, kvPair{k.Attrs[0][1], v})
		}
		return m, nil
	}
	return nil, errors.New("unexpected element " + n.Name)
}

// ---------------------------------------------------------------- signatures

func c18RuneClass(c rune) string {
	switch c {
	case '<', '>', '&', '\'', '"':
		return "markup"
	case '\r':
		return "CR"
	case '\n':
		return "LF"
	case '\t':
		return "TAB"
	case ' ':
		return "blank"
	case '=':
		return "equals"
	}
	if c < 0x80 && (c == '_' || c == '-' || c == '.' || c == ':' || (c >= '0' && c <= '9') || (c >= 'a' && c <= 'z') || (c >= 'A' && c <= 'Z')) {
		return "namechar"
	}
	if c < 0x80 {
		return "ascii-other"
	}
	return "non-ascii"
}

// sink (attribute name | attribute value | text) x rune class of the first character that does not come back
func diffClass(want, got string) string {
	w, g := []rune(want), []rune(got)
	for i := range w {
		if i >= len(g) || g[i] != w[i] {
			return c18RuneClass(w[i])
		}
	}
	return "extra"
}

func specialClasses(strs []string) string {
	set := map[string]bool{}
	for _, s := range strs {
		for _, c := range s {
			k := c18RuneClass(c)
			if k != "namechar" && k != "non-ascii" && k != "ascii-other" {
				set[k] = true
			}
		}
	}
	return strings.Join(sortedKeys(set), "+")
}

// ---------------------------------------------------------------- xml cases

func exportXML(v value.Value) (out []byte, err error, panicked any) {
	defer func() {
		if r := recover(); r != nil {
			panicked = r
		}
	}()
	ex := export.XML()
	err = export.Export(funcGen.NewEmptyStack[value.Value](), v, ex)
	return ex.Result(), err, nil
}

func (t *XT) strings() (keys, texts []string) {
	t.Walk(func(x *XT) {
		if x.Kind == "map" {
			keys = append(keys, x.Keys...)
		}
		if x.Kind == "str" || x.Kind == "link" || x.Kind == "file" {
			texts = append(texts, x.S)
		}
	})
	return
}

func markupSignificant(s string) bool {
	return strings.ContainsAny(s, "<>&'\"\r\n\t =") || s != strings.TrimSpace(s)
}

func anyMarkup(ss []string) bool {
	for _, s := range ss {
		if markupSignificant(s) {
			return true
		}
	}
	return false
}

// first difference between the expected and the decoded value: sink and class
func diffDecoded(want, got any, sink string) (string, bool) {
	switch w := want.(type) {
	case string:
		g, ok := got.(string)
		if !ok {
			return "structure", true
		}
		if g != w {
			return sink + ":" + diffClass(w, g), true
		}
	case []any:
		g, ok := got.([]any)
		if !ok || len(g) != len(w) {
			return "structure", true
		}
		for i := range w {
			if s, bad := diffDecoded(w[i], g[i], "text"); bad {
				return s, true
			}
		}
	case []kvPair:
		g, ok := got.([]kvPair)
		if !ok || len(g) != len(w) {
			return "structure:keys", true
		}
		for i := range w {
			if g[i].K != w[i].K {
				return "key:" + diffClass(w[i].K, g[i].K), true
			}
			// in the attribute form the value of a key is an attribute value
			vs := "text"
			if _, isStr := g[i].V.(string); isStr {
				vs = "value"
			}
			if s, bad := diffDecoded(w[i].V, g[i].V, vs); bad {
				return s, true
			}
		}
	}
	return "", false
}

func c18XMLCase(t *XT, id int, sum *Summary, cw *CaseWriter) {
	built := t.Build()
	out, err, pan := exportXML(built)
	c18XMLCheck(t, built, out, err, pan, nil, id, sum, cw)
}

// c18Hist: the document is item Pos of a history of exports and is looked at only after the last export;
// Snap is a copy taken when the exporter returned it
type c18Hist struct {
	Seq        []c18Repro
	Pos        int
	Concurrent int
	Snap       string
}

func (h *c18Hist) repro() map[string]any {
	return map[string]any{"kind": "history", "history": h.Seq, "concurrent": h.Concurrent}
}

func c18XMLCheck(t *XT, built value.Value, out []byte, err error, pan any, hist *c18Hist, id int, sum *Summary, cw *CaseWriter) {
	keys, texts := t.strings()
	human := map[string]any{"kind": "xml", "value": t.Human(), "exported": string(out), "repro": map[string]any{"kind": "xml", "tree": t}}
	if hist != nil {
		human["repro"] = hist.repro()
		human["history"] = fmt.Sprintf("document %d of a history of %d exports, looked at after the last export", hist.Pos+1, len(hist.Seq))
	}
	sum.Cases[fmt.Sprint(id)] = human
	viol := func(what, sig, exp, obs string) {
		human["signature"] = sig
		sum.GoViolations = append(sum.GoViolations, GoViolation{CaseID: id, What: what, Sig: sig, Human: human, Expected: exp, Observed: obs})
	}
	if pan != nil {
		sum.Evaluations++
		viol(fmt.Sprintf("XML export panics: %v", pan), "xml:panic", "a document", "panic")
		return
	}
	if err != nil {
		sum.Skipped["xml-export-error"]++
		return
	}
	sum.Evaluations++
	sum.Count("kind", "xml")
	t.Walk(func(x *XT) {
		sum.Count("node_kinds", x.Kind)
		if x.Kind == "list" || x.Kind == "map" {
			sum.Count("representations", x.Kind+":"+x.Repr)
		}
		if x.Kind == "map" {
			simple := true
			for i, k := range x.Keys {
				if !x.Items[i].isScalar() {
					simple = false
				}
				sum.Count("key_classes", keyClass(k))
			}
			if simple {
				sum.Count("map_forms", "scalar-values")
			} else {
				sum.Count("map_forms", "nested-values")
			}
		}
	})
	for _, s := range append(append([]string{}, keys...), texts...) {
		for _, c := range s {
			sum.Count("rune_classes", c18RuneClass(c))
		}
	}
	sum.Count("depth", fmt.Sprint(t.Depth()))
	sum.Count("output_len", bucket(len(out)))
	if anyMarkup(keys) && anyMarkup(texts) {
		sum.Nontriv(string(out))
	}
	human["signature"] = "xml:spec"
	sum.Sample(human)

	// a standard parser on the exported bytes
	forest, perr := xmlForest(out)
	goTree := "None"
	if perr == nil && len(forest) == 1 && !forest[0].IsText {
		goTree = "Some (" + forest[0].Coq() + ")"
	}
	cw.Add(fmt.Sprintf("KXml %d (%s) %s (%s)", id, t.CoqXVal(built), CoqBytesAsRunes(out), goTree))
	if hist != nil && string(out) != hist.Snap {
		human["exported_when_returned"] = hist.Snap
		viol("the document an earlier export returned was changed by a later export", "xml:history:returned-document-changed-by-later-export", hist.Snap, string(out))
		return
	}

	exp := t.expectXML()
	expS, _ := json.Marshal(exp)
	if perr != nil {
		viol("encoding/xml rejects the exported document: "+perr.Error(), "xml:not-well-formed", string(expS), string(out))
		return
	}
	if len(forest) != 1 || forest[0].IsText {
		viol("the exported document does not consist of exactly one root element", "xml:structure", string(expS), string(out))
		return
	}
	dec, derr := decodeDoc(forest[0])
	if derr != nil {
		viol("the exported document is not in the documented list/entry/map/key format: "+derr.Error(), "xml:structure", string(expS), string(out))
		return
	}
	if s, bad := diffDecoded(exp, dec, "text"); bad {
		decS, _ := json.Marshal(dec)
		viol("the exported document reads back as a different value", "xml:"+s, string(expS), string(decS))
	}
}

func keyClass(k string) string {
	switch {
	case k == "":
		return "empty"
	case len(k) >= 3 && strings.EqualFold(k[:3], "xml"):
		return "xml-reserved"
	case regexp.MustCompile(`^[A-Za-z_][A-Za-z0-9_.\-]*$`).MatchString(k):
		return "plain-name"
	case strings.ContainsAny(k, "<>&'\""):
		return "markup"
	case strings.ContainsAny(k, " \t\r\n="):
		return "blank-or-equals"
	}
	return "other-non-name"
}

// ---------------------------------------------------------------- html cases

type htmlRun struct {
	Res     string
	Classes []export.Class
	Err     error
	Panic   any
}

func runToHtml(v value.Value, maxList int, custom export.CustomHTML, inline bool) (r htmlRun) {
	defer func() {
		if p := recover(); p != nil {
			r.Panic = p
		}
	}()
	res, cl, err := export.ToHtml(v, maxList, custom, inline)
	return htmlRun{Res: string(res), Classes: cl, Err: err}
}

const phOpen, phClose = rune(0xE100), rune(0xE101)

var phRe = regexp.MustCompile("\\x{E100}([0-9]+)\\x{E101}")

type twinTab struct{ subst []string }

func (tt *twinTab) ph(orig string) string {
	tt.subst = append(tt.subst, orig)
	return fmt.Sprintf("%c%06d%c", phOpen, len(tt.subst)-1, phClose)
}

func (tt *twinTab) apply(s string) string {
	return phRe.ReplaceAllStringFunc(s, func(m string) string {
		n, _ := strconv.Atoi(phRe.FindStringSubmatch(m)[1])
		return tt.subst[n]
	})
}

// placeholders for a set of keys such that the placeholders sort like the (transformed) keys
func (tt *twinTab) orderedKeys(keys []string, transform func(string) string) map[string]string {
	type kk struct{ k, tk string }
	var l []kk
	for _, k := range keys {
		l = append(l, kk{k, transform(k)})
	}
	sort.Slice(l, func(i, j int) bool { return l[i].tk < l[j].tk })
	m := map[string]string{}
	for _, e := range l {
		m[e.k] = tt.ph(e.tk)
	}
	return m
}

var tableKeyRe = regexp.MustCompile(`^(r[0-9]+c[0-9]+|r[0-9]+|c[0-9]+|all)$`)

func (tt *twinTab) twinStyle(s *XT, inTable bool) *XT {
	if s == nil {
		return nil
	}
	c := *s
	switch s.Kind {
	case "str":
		if s.S != "plainList" {
			c.S = tt.ph(s.S)
		}
	case "map":
		var css []string
		for _, k := range s.Keys {
			if !(inTable && tableKeyRe.MatchString(k)) && k != "plainList" && k != "table" {
				css = append(css, k)
			}
		}
		m := tt.orderedKeys(css, func(k string) string { return strings.ReplaceAll(k, "_", "-") })
		c.Keys, c.Items = nil, nil
		for i, k := range s.Keys {
			if p, ok := m[k]; ok {
				c.Keys = append(c.Keys, p)
				c.Items = append(c.Items, tt.twinStyle(s.Items[i], false))
			} else {
				c.Keys = append(c.Keys, k)
				c.Items = append(c.Items, tt.twinStyle(s.Items[i], k == "table"))
			}
		}
	}
	return &c
}

// the same value with every data string replaced by an inert placeholder
func (tt *twinTab) twin(t *XT) *XT {
	c := *t
	c.Items = nil
	switch t.Kind {
	case "str":
		pre := ""
		for _, p := range []string{"http://", "https://", "host:"} {
			if strings.HasPrefix(t.S, p) {
				pre = p
				break
			}
		}
		if rest := t.S[len(pre):]; wsOnly(rest) {
			// empty and blank strings stay: whether a text node exists is shape, and they are inert anyway
			c.S = t.S
		} else {
			c.S = pre + tt.ph(rest)
		}
	case "link":
		c.S = tt.ph(t.S)
	case "file":
		c.S = tt.ph(t.S)
		if t.Mime != "" {
			c.Mime = tt.ph(t.Mime)
		}
	case "map":
		m := tt.orderedKeys(t.Keys, func(k string) string { return k })
		c.Keys = nil
		for _, k := range t.Keys {
			c.Keys = append(c.Keys, m[k])
		}
	case "format":
		c.Style = tt.twinStyle(t.Style, false)
	}
	for _, it := range t.Items {
		c.Items = append(c.Items, tt.twin(it))
	}
	return &c
}

var htmlElems = map[string]bool{"table": true, "tr": true, "td": true, "a": true, "span": true}
var htmlAttrs = map[string]bool{"href": true, "target": true, "download": true, "style": true, "class": true, "colspan": true}

// compares the forest of the real output with the forest of the placeholder output
func compareForests(tt *twinTab, real, twin []*xnode, path string) (what, sig string) {
	if len(real) != len(twin) {
		return fmt.Sprintf("%s: %d nodes with the data, %d with inert placeholders", path, len(real), len(twin)), "structure"
	}
	for i := range real {
		r, w := real[i], twin[i]
		p := fmt.Sprintf("%s/%d", path, i)
		if r.IsText != w.IsText {
			return p + ": text versus element", "structure"
		}
		if r.IsText {
			if want := tt.apply(w.Text); want != r.Text {
				return fmt.Sprintf("%s: text %q, the value has %q", p, r.Text, want), "text:" + diffClass(want, r.Text)
			}
			continue
		}
		if r.Name != w.Name || !htmlElems[r.Name] {
			return fmt.Sprintf("%s: element name %q (with placeholders %q)", p, r.Name, w.Name), "element-name"
		}
		if len(r.Attrs) != len(w.Attrs) {
			return fmt.Sprintf("%s: <%s> has %d attributes, %d with placeholders", p, r.Name, len(r.Attrs), len(w.Attrs)), "attribute-name"
		}
		for j := range r.Attrs {
			if r.Attrs[j][0] != w.Attrs[j][0] || !htmlAttrs[r.Attrs[j][0]] {
				return fmt.Sprintf("%s: attribute name %q (with placeholders %q)", p, r.Attrs[j][0], w.Attrs[j][0]), "attribute-name"
			}
			if want := tt.apply(w.Attrs[j][1]); want != r.Attrs[j][1] {
				return fmt.Sprintf("%s: attribute %s=%q, the value has %q", p, r.Attrs[j][0], r.Attrs[j][1], want), "attribute-value:" + diffClass(want, r.Attrs[j][1])
			}
		}
		if what, sig := compareForests(tt, r.Kids, w.Kids, p+":"+r.Name); what != "" {
			return what, sig
		}
	}
	return "", ""
}

type htmlCase struct {
	Tree    *XT    `json:"tree"`
	MaxList int    `json:"max"`
	Inline  bool   `json:"inline"`
	Custom  string `json:"custom,omitempty"` // "", "panic", "error", "raw"
	WantErr bool   `json:"want_err,omitempty"`
}

func customFor(kind string) export.CustomHTML {
	switch kind {
	case "panic":
		return func(v value.Value) (template.HTML, bool, error) {
			if _, ok := v.(value.Bool); ok {
				panic("custom renderer panics")
			}
			return "", false, nil
		}
	case "error":
		return func(v value.Value) (template.HTML, bool, error) {
			if _, ok := v.(value.Bool); ok {
				return "", false, errors.New("custom renderer fails")
			}
			return "", false, nil
		}
	case "raw":
		return func(v value.Value) (template.HTML, bool, error) {
			if b, ok := v.(value.Bool); ok {
				if b {
					return "<b>yes</b>", true, nil
				}
				return "<i>no</i>", true, nil
			}
			return "", false, nil
		}
	}
	return nil
}

func c18HTMLCase(hc *htmlCase, id int, sum *Summary, cw *CaseWriter) {
	t := hc.Tree
	sum.Evaluations++
	sum.Count("kind", "html")
	human := map[string]any{"kind": "html", "value": t.Human(), "maxListSize": hc.MaxList, "inlineStyle": hc.Inline, "custom": hc.Custom,
		"repro": map[string]any{"kind": "html", "html": hc}}
	sum.Cases[fmt.Sprint(id)] = human
	viol := func(what, sig, exp, obs string) {
		human["signature"] = "html:" + sig
		sum.GoViolations = append(sum.GoViolations, GoViolation{CaseID: id, What: what, Sig: "html:" + sig, Human: human, Expected: exp, Observed: obs})
	}
	var strs []string
	wrappers := map[string]bool{}
	t.Walk(func(x *XT) {
		sum.Count("node_kinds", x.Kind)
		switch x.Kind {
		case "str", "link", "file":
			strs = append(strs, x.S)
		case "map":
			strs = append(strs, x.Keys...)
		case "list":
			sum.Count("html_list_len_minus_max", fmt.Sprint(clamp(len(x.Items)-hc.MaxList, -3, 3)))
		}
		if x.Kind == "format" || x.Kind == "link" || x.Kind == "file" || x.Kind == "closure" {
			wrappers[x.Kind] = true
		}
	})
	for _, s := range strs {
		for _, c := range s {
			sum.Count("rune_classes", c18RuneClass(c))
		}
	}
	human["signature"] = "html:spec"
	custom := customFor(hc.Custom)
	real := runToHtml(t.Build(), hc.MaxList, custom, hc.Inline)
	human["exported"] = real.Res
	if real.Err != nil {
		human["error"] = real.Err.Error()
	}
	sum.Sample(human)
	// failures are errors, never panics, and an error comes without markup
	if real.Panic != nil {
		viol(fmt.Sprintf("ToHtml panics: %v", real.Panic), "panic", "an error value", "panic")
		return
	}
	if real.Err != nil && real.Res != "" {
		viol("ToHtml returns an error together with markup", "error-with-markup", "", real.Res)
		return
	}
	if hc.WantErr && real.Err == nil {
		viol("a failing closure / renderer / list element was not reported as an error", "error-not-reported", "error", real.Res)
		return
	}
	if real.Err != nil {
		sum.Count("html_outcome", "error")
		if m := hc.coqModelInput(); m != "None" {
			// inside the core model: the model must answer Err as well
			cw.Add(fmt.Sprintf("KHtmlErr %d %s", id, strings.TrimSuffix(strings.TrimPrefix(m, "(Some "), ")")))
			sum.Count("html_outcome", "error-in-core-model")
		} else if !hc.WantErr {
			sum.Skipped["html-unexpected-error"]++
		}
		return
	}
	sum.Count("html_outcome", "ok")
	sum.Count("output_len", bucket(len(real.Res)))

	forest, perr := xmlForest([]byte(real.Res))
	goForest := "None"
	if perr == nil {
		goForest = "Some " + coqForest(forest)
	}
	rawAttrWS := hc.Custom == "raw"
	cw.Add(fmt.Sprintf("KHtml %d %s %s %s (%s)", id, hc.coqModelInput(), CoqBool(rawAttrWS), CoqBytesAsRunes([]byte(real.Res)), goForest))
	if perr != nil {
		viol("encoding/xml rejects the markup ToHtml produced: "+perr.Error(), "not-well-formed", "well-formed markup", real.Res)
		return
	}
	if hc.Custom == "raw" {
		// caller supplied raw HTML is outside the property; only well-formedness of the rest is checked
		return
	}
	// the same value with inert placeholders
	tt := &twinTab{}
	tw := tt.twin(t)
	twr := runToHtml(tw.Build(), hc.MaxList, custom, hc.Inline)
	if twr.Panic != nil || twr.Err != nil {
		viol("ToHtml fails on the value with inert placeholders but not on the value itself", "structure", "", fmt.Sprint(twr.Err, twr.Panic))
		return
	}
	tforest, terr := xmlForest([]byte(twr.Res))
	if terr != nil {
		fatal("placeholder rendering is not well-formed: %v\n%s", terr, twr.Res)
	}
	if what, sig := compareForests(tt, forest, tforest, ""); what != "" {
		viol("markup depends on the data: "+what, sig, twr.Res, real.Res)
		return
	}
	if len(real.Classes) != len(twr.Classes) {
		viol("class list depends on the data", "structure", fmt.Sprint(len(twr.Classes)), fmt.Sprint(len(real.Classes)))
		return
	}
	for i := range real.Classes {
		if real.Classes[i].Name != twr.Classes[i].Name || string(real.Classes[i].Style) != tt.apply(string(twr.Classes[i].Style)) {
			viol("class list entry differs from the style of the value", "class-list", tt.apply(string(twr.Classes[i].Style)), string(real.Classes[i].Style))
			return
		}
	}
	if anyMarkup(strs) && (wrappers["format"] || wrappers["link"] || wrappers["file"]) {
		sum.Nontriv(real.Res)
	}
}

func clamp(x, lo, hi int) int {
	if x < lo {
		return lo
	}
	if x > hi {
		return hi
	}
	return x
}

// ---------------------------------------------------------------- generators

var hostile = []string{"<", ">", "&", "'", "\"", "]]>", "<!--", "-->", "<![CDATA[", "&amp;", "&lt;", "&#60;", "&#x3c;", "&quot;", "&nbsp;",
	" ", "  ", "=", "\r", "\n", "\t", "\r\n", "/>", "</entry>", "<entry>", "</td>", "<script>", "\" x=\"", "' x='", "\"><b>", "?>", "<?xml", "%", ";", ":",
	"\u00a0", "\u0085", "\u2028", "\ufffd", "\U0001F600", "\ud7ff", "\ue000", "a", "b", "key", "xml"}

func legalXMLRune(c rune) bool {
	if c == phOpen || c == phClose {
		return false
	}
	return c == 9 || c == 10 || c == 13 || (c >= 0x20 && c <= 0xd7ff) || (c >= 0xe000 && c <= 0xfffd) || (c >= 0x10000 && c <= 0x10ffff)
}

// strings of legal XML characters with markup-significant pieces boosted
func (r *Rng) xmlStr(maxPieces int) string {
	var b strings.Builder
	n := 0
	switch r.Pick(6) {
	case 0:
		n = 0
	case 1:
		n = 1
	default:
		n = 1 + r.Pick(maxPieces)
	}
	if r.Chance(0.1) {
		b.WriteString([]string{" ", "\t", "\n", "\r"}[r.Pick(4)])
	}
	for i := 0; i < n; i++ {
		switch r.Pick(5) {
		case 0, 1:
			b.WriteString(hostile[r.Pick(len(hostile))])
		case 2, 3:
			for k := 1 + r.Pick(4); k > 0; k-- {
				b.WriteRune(rune(32 + r.Pick(95)))
			}
		default:
			for {
				c := r.Rune(false)
				if legalXMLRune(c) {
					b.WriteRune(c)
					break
				}
			}
		}
	}
	if r.Chance(0.1) {
		b.WriteString([]string{" ", "\t", "\n", "\r"}[r.Pick(4)])
	}
	return b.String()
}

var plainKeys = []string{"a", "b", "key", "x-y", "_z", "A.b", "k1", "name", "Xm", "xm"}
var edgeKeys = []string{"", "xml", "XmlFoo", "xmlns", "xml:lang", "1a", "-a", ".a", "a:b", "\u00e4", "a b", "a=\"1\" b", "<k>", "k\n", "a\tb", "a\rb", "a>", "a/", "k'", "&", "\ua000", "\u00b5", "a\u00b7"}

func (r *Rng) xmlKey() string {
	switch r.Pick(10) {
	case 0, 1, 2, 3:
		return plainKeys[r.Pick(len(plainKeys))]
	case 4, 5, 6:
		return edgeKeys[r.Pick(len(edgeKeys))]
	}
	return r.xmlStr(3)
}

func (r *Rng) genScalarXT() *XT {
	switch r.Pick(8) {
	case 0:
		if r.Chance(0.5) {
			return xi(intPool[r.Pick(len(intPool))])
		}
		return xi(r.Pick(2001) - 1000)
	case 1:
		return &XT{Kind: "float", FBits: math.Float64bits(floatPool[r.Pick(len(floatPool))])}
	case 2:
		return &XT{Kind: "bool", B: r.Chance(0.5)}
	}
	return xs(r.xmlStr(4))
}

func (r *Rng) genMapXT(depth int, item func(int) *XT) *XT {
	n := r.Pick(5)
	t := &XT{Kind: "map", Repr: xmlMapReprs[r.Pick(len(xmlMapReprs))]}
	seen := map[string]bool{}
	for i := 0; i < n; i++ {
		k := r.xmlKey()
		if seen[k] {
			continue
		}
		seen[k] = true
		t.Keys = append(t.Keys, k)
		t.Items = append(t.Items, item(depth-1))
	}
	return t
}

// value trees for the XML exporter: C17's shapes plus Format/Link wrappers and File scalars
func (r *Rng) genXMLTree(depth int, container bool) *XT {
	k := r.Pick(12)
	if depth <= 1 && !container {
		k = r.Pick(6)
	}
	if container && k < 6 {
		k = 6 + r.Pick(4)
	}
	switch {
	case k < 5:
		return r.genScalarXT()
	case k == 5:
		return &XT{Kind: "file", S: r.xmlStr(2), Mime: "text/plain", Data: []byte("xy")}
	case k <= 7:
		t := &XT{Kind: "list", Repr: listReprs[r.Pick(len(listReprs))]}
		for n := r.Pick(5); n > 0; n-- {
			t.Items = append(t.Items, r.genXMLTree(depth-1, false))
		}
		return t
	case k <= 9:
		if r.Chance(0.5) {
			// maps with scalar values only: the attribute form
			return r.genMapXT(depth, func(int) *XT {
				if r.Chance(0.1) {
					return xlink(r.xmlStr(2), r.genScalarXT())
				}
				return r.genScalarXT()
			})
		}
		return r.genMapXT(depth, func(d int) *XT { return r.genXMLTree(d, false) })
	case k == 10:
		return xfmt(xs(r.xmlStr(2)), r.genXMLTree(depth-1, container))
	default:
		return xlink(r.xmlStr(2), r.genXMLTree(depth-1, container))
	}
}

var cssKeys = []string{"color", "background", "font_weight", "width", "text-align"}
const failingClosure = "x->throw(\"boom\")"

var closureSrcs = []string{"x->x", "x->\"<b>\"+string(x)+\"</b>\"", "x->[x,\"&\"]", "x->{v:x}"}

func (r *Rng) genStyle(forList bool) *XT {
	switch r.Pick(10) {
	case 0, 1, 2:
		return xs(r.xmlStr(3))
	case 3:
		return xs("plainList")
	case 4, 5, 6:
		m := &XT{Kind: "map", Repr: "listmap"}
		seen := map[string]bool{}
		for n := 1 + r.Pick(3); n > 0; n-- {
			k := cssKeys[r.Pick(len(cssKeys))]
			if r.Chance(0.3) {
				k = r.xmlStr(2)
			}
			tk := strings.ReplaceAll(k, "_", "-")
			if seen[tk] || k == "table" || k == "plainList" {
				continue
			}
			seen[tk] = true
			m.Keys = append(m.Keys, k)
			switch r.Pick(4) {
			case 0:
				m.Items = append(m.Items, xi(r.Pick(100)))
			case 1:
				m.Items = append(m.Items, &XT{Kind: "float", FBits: math.Float64bits(floatPool[1+r.Pick(2)])})
			default:
				m.Items = append(m.Items, xs(r.xmlStr(2)))
			}
		}
		if forList && r.Chance(0.5) {
			tf := &XT{Kind: "map", Repr: "listmap"}
			for _, k := range []string{"r1c1", "r2", "c2", "all"} {
				if r.Chance(0.5) {
					tf.Keys = append(tf.Keys, k)
					if r.Chance(0.25) {
						tf.Items = append(tf.Items, &XT{Kind: "closure", S: closureSrcs[r.Pick(2)]})
					} else {
						tf.Items = append(tf.Items, xs(r.xmlStr(2)))
					}
				}
			}
			m.Keys = append(m.Keys, "table")
			m.Items = append(m.Items, tf)
		}
		if forList && r.Chance(0.1) {
			m.Keys = append(m.Keys, "plainList")
			m.Items = append(m.Items, &XT{Kind: "bool", B: true})
		}
		return m
	default:
		if r.Chance(0.4) {
			return &XT{Kind: "closure", S: failingClosure}
		}
		return &XT{Kind: "closure", S: closureSrcs[r.Pick(len(closureSrcs))]}
	}
}

func (r *Rng) htmlStr() *XT {
	s := r.xmlStr(4)
	switch r.Pick(12) {
	case 0:
		s = "http://" + s
	case 1:
		s = "https://" + s
	case 2:
		s = "host:" + s
	}
	return xs(s)
}

// value trees for ToHtml: lists around the maxListSize cut-off, tables (lists of lists), maps, wrappers
func (r *Rng) genHTMLTree(depth, maxList int) *XT {
	k := r.Pick(14)
	if depth <= 1 {
		k = r.Pick(6)
	}
	switch {
	case k < 3:
		return r.htmlStr()
	case k < 5:
		return r.genScalarXT()
	case k == 5:
		mime := ""
		if r.Chance(0.5) {
			mime = "text/" + r.xmlStr(1)
		}
		return &XT{Kind: "file", S: r.xmlStr(2), Mime: mime, Data: []byte(r.xmlStr(2))}
	case k <= 7:
		t := &XT{Kind: "list", Repr: listReprs[r.Pick(len(listReprs))]}
		n := maxList - 2 + r.Pick(5)
		if r.Chance(0.3) {
			n = r.Pick(3)
		}
		table := r.Chance(0.4)
		for i := 0; i < n; i++ {
			if table {
				row := &XT{Kind: "list", Repr: "eager"}
				for c := maxList - 1 + r.Pick(3); c > 0; c-- {
					row.Items = append(row.Items, r.genHTMLTree(depth-2, maxList))
				}
				t.Items = append(t.Items, row)
			} else {
				t.Items = append(t.Items, r.genHTMLTree(depth-1, maxList))
			}
		}
		return t
	case k <= 9:
		return r.genMapXT(depth, func(d int) *XT { return r.genHTMLTree(d, maxList) })
	case k <= 11:
		v := r.genHTMLTree(depth-1, maxList)
		f := xfmt(r.genStyle(v.Kind == "list"), v)
		f.Cell = r.Chance(0.3)
		if r.Chance(0.2) {
			f.ColSpan = r.Pick(4)
		}
		if f.Style.Kind == "closure" && f.Style.S != "x->x" && f.Style.S != failingClosure && v.Kind != "str" && v.Kind != "int" {
			f.Style.S = "x->x"
		}
		return f
	default:
		return xlink(r.xmlStr(3), r.genHTMLTree(depth-1, maxList))
	}
}

// ---------------------------------------------------------------- nil, failing iteration, table-format closure results

func xnil() *XT { return &XT{Kind: "nil"} }
func xfail(it ...*XT) *XT { return &XT{Kind: "list", Repr: "iter-fail", Items: it} }
func xclo(src string) *XT { return &XT{Kind: "closure", S: src} }

// small cell items: scalars with markup characters, nil, wrappers, a list (a table inside the cell)
func (r *Rng) genTabItem(maxList int) *XT {
	switch r.Pick(10) {
	case 0:
		return xnil()
	case 1:
		return xfmt(xs(r.xmlStr(2)), r.htmlStr())
	case 2:
		f := xfmt(xs(r.xmlStr(2)), xl(r.htmlStr(), xnil()))
		f.Cell = r.Chance(0.5)
		return f
	case 3:
		return xlink(r.xmlStr(2), r.htmlStr())
	case 4:
		return xl(r.htmlStr(), r.genScalarXT())
	case 5:
		return xm(r.xmlKey(), r.htmlStr())
	case 6:
		return r.genScalarXT()
	}
	return r.htmlStr()
}

// the new shapes of the ToHtml model: tables with table formats whose closures succeed with other values,
// nil (first / later element, map value, wrapped), lists whose iteration fails around the cut-off
func (r *Rng) genTabCase(maxList int) *htmlCase {
	hc := &htmlCase{MaxList: maxList, Inline: r.Chance(0.5)}
	items := func(n int) []*XT {
		var l []*XT
		for i := 0; i < n; i++ {
			l = append(l, r.genTabItem(maxList))
		}
		return l
	}
	switch k := r.Pick(10); {
	case k < 5:
		// a table with a table format
		tf := &XT{Kind: "map", Repr: "listmap"}
		for _, key := range []string{"r1c1", "r2c2", "r1", "r2", "c1", "c2", "all"} {
			if !r.Chance(0.45) {
				continue
			}
			tf.Keys = append(tf.Keys, key)
			switch c := r.Pick(10); {
			case c < 6:
				tf.Items = append(tf.Items, xclo(resClosures[r.Pick(len(resClosures))]))
			case c == 6:
				tf.Items = append(tf.Items, xclo("x->x"))
			case c == 7:
				tf.Items = append(tf.Items, xclo(failingClosure))
			default:
				tf.Items = append(tf.Items, xs(r.xmlStr(2)))
			}
		}
		st := xm("table", tf)
		if r.Chance(0.4) {
			st.Keys = append(st.Keys, cssKeys[r.Pick(len(cssKeys))])
			st.Items = append(st.Items, xs(r.xmlStr(2)))
		}
		tbl := &XT{Kind: "list", Repr: "eager"}
		nrows := clamp(maxList-1+r.Pick(3), 1, 5)
		for i := 0; i < nrows; i++ {
			if i > 0 && r.Chance(0.15) {
				tbl.Items = append(tbl.Items, r.genTabItem(maxList)) // a row that is not a list (may be a Format or nil)
				if tbl.Items[i].Kind == "list" {
					tbl.Items[i] = r.htmlStr()
				}
				continue
			}
			row := &XT{Kind: "list", Repr: "eager", Items: items(clamp(maxList-1+r.Pick(3), 0, 5))}
			if r.Chance(0.12) {
				row.Repr = "iter-fail"
			}
			tbl.Items = append(tbl.Items, row)
		}
		if r.Chance(0.1) {
			tbl.Repr = "iter-fail"
		}
		var v *XT = tbl
		if r.Chance(0.25) {
			v = xlink(r.xmlStr(2), v)
		}
		hc.Tree = xfmt(st, v)
		if r.Chance(0.2) {
			hc.Tree = xl(xs("head"), hc.Tree) // the Format in a cell of a numbered list: toTD hands the style on
		}
	case k < 8:
		// numbered lists / plainList with nil and a failing iteration around the cut-off
		n := clamp(maxList-1+r.Pick(3), 0, 5)
		l := &XT{Kind: "list", Repr: "eager", Items: items(n)}
		for i := range l.Items {
			if l.Items[i].Kind == "list" && i == 0 {
				l.Items[i] = r.htmlStr()
			}
		}
		if r.Chance(0.3) && n > 0 {
			l.Items[0] = xnil()
		}
		if r.Chance(0.6) {
			l.Repr = "iter-fail"
			if n <= maxList && (n == 0 || l.Items[0].Kind != "nil") {
				hc.WantErr = true // the failing position is reached: no later than the first element past the cut-off
			}
		}
		hc.Tree = l
		if r.Chance(0.25) {
			hc.Tree = xfmt(xs("plainList"), l)
			hc.WantErr = l.Repr == "iter-fail"
		}
	default:
		// nil below maps, wrappers, styles
		switch r.Pick(4) {
		case 0:
			hc.Tree = xm(r.xmlKey(), xnil(), "k2", xfmt(xs(r.xmlStr(2)), xnil()))
		case 1:
			hc.Tree = xlink(r.xmlStr(2), xnil())
		case 2:
			hc.Tree = xfmt(xclo("x->x"), xnil())
		default:
			hc.Tree = xl(xl(xnil(), r.htmlStr()), xnil(), xl(xnil()))
		}
	}
	return hc
}

func c18TabCount(hc *htmlCase, sum *Summary) {
	hc.Tree.Walk(func(x *XT) {
		switch {
		case x.Kind == "nil":
			sum.Count("tab_shapes", "nil")
		case x.Kind == "list" && x.Repr == "iter-fail":
			sum.Count("tab_shapes", fmt.Sprintf("iter-fail at len-max=%d", clamp(len(x.Items)-hc.MaxList, -2, 2)))
		case x.Kind == "list" && len(x.Items) > 0 && x.Items[0].Kind == "nil":
			sum.Count("tab_shapes", "list with nil first")
		case x.Kind == "closure" && isResClosure(x.S):
			if strings.HasPrefix(x.S, "(") {
				sum.Count("tab_shapes", "table-format closure result (3 args)")
			} else {
				sum.Count("tab_shapes", "table-format closure result (1 arg)")
			}
		}
	})
	if m := hc.coqModelInput(); m != "None" {
		sum.Count("tab_shapes", "case inside the model")
		if strings.Contains(m, "HCell") {
			sum.Count("tab_shapes", "case with HCell")
		}
	} else {
		sum.Count("tab_shapes", "case outside the model")
	}
}

// ---------------------------------------------------------------- Coq input of the ToHtml core model

// Cases inside the modelled core of ToHtml are handed to the Coq model as a term; everything else as None
// (covered by the oracles above only).
func (hc *htmlCase) coqModelInput() string {
	if hc.Custom != "" {
		return "None"
	}
	term, ok := hc.Tree.coqHVal()
	if !ok {
		return "None"
	}
	return fmt.Sprintf("(Some (%d, %s, %s))", hc.MaxList, CoqBool(hc.Inline), term)
}

func (t *XT) coqStyle() (string, bool) {
	if t == nil {
		return "SNone", true
	}
	switch t.Kind {
	case "str":
		return "SStr " + CoqStr(t.S), true
	case "closure":
		if t.S == failingClosure {
			return "SCloErr", true
		}
		if t.S == "x->x" {
			return "SCloId", true
		}
		return "", false
	case "map":
		// css entries with string / int values, no plainList key; the key table holds the table format map
		var parts []string
		tab := ""
		for i, k := range t.Keys {
			it := t.Items[i]
			if k == "plainList" {
				return "", false
			}
			if k == "table" {
				if it.Kind != "map" {
					return "", false
				}
				var tf []string
				for j, fk := range it.Keys {
					fv := it.Items[j]
					if fv.Kind == "map" {
						for _, kk := range fv.Keys {
							if kk == "table" {
								return "", false
							}
						}
					}
					if fv.Kind != "str" && fv.Kind != "map" && !(fv.Kind == "closure" && (fv.S == failingClosure || fv.S == "x->x" || isResClosure(fv.S))) {
						return "", false
					}
					st, ok := fv.coqStyle()
					if fv.Kind == "closure" && isResClosure(fv.S) {
						st, ok = "SCloRes", true
					}
					if !ok {
						return "", false
					}
					tf = append(tf, "("+CoqStr(fk)+", "+st+")")
				}
				tab = CoqList(tf)
				continue
			}
			switch it.Kind {
			case "str":
				parts = append(parts, "("+CoqStr(k)+", "+CoqStr(it.S)+")")
			case "int":
				parts = append(parts, "("+CoqStr(k)+", "+CoqStr(strconv.Itoa(it.I))+")")
			default:
				return "", false
			}
		}
		if tab != "" {
			return "STab " + CoqList(parts) + " " + tab, true
		}
		return "SMap " + CoqList(parts), true
	}
	return "", false
}

// table-format closures that succeed with a value other than the item; the model gets the value with the item (HCell)
var resClosures = []string{"x->[x,\"&\"]", "x->{v:x}", "(r,c,x)->[r,c,x]", "(r,c,x)->{row:r,item:x}"}

func isResClosure(src string) bool {
	for _, c := range resClosures {
		if c == src {
			return true
		}
	}
	return false
}

// the Coq term of the value the closure returns for the item with the Coq term p at (row, col)
func resClosureTerm(src, p string, row, col int) string {
	switch src {
	case "x->[x,\"&\"]":
		return "HL [" + p + "; HS " + CoqStr("&") + "]"
	case "x->{v:x}":
		return "HM [(" + CoqStr("v") + ", " + p + ")]"
	case "(r,c,x)->[r,c,x]":
		return "HL [HS " + CoqStr(strconv.Itoa(row)) + "; HS " + CoqStr(strconv.Itoa(col)) + "; " + p + "]"
	case "(r,c,x)->{row:r,item:x}":
		return "HM [(" + CoqStr("row") + ", HS " + CoqStr(strconv.Itoa(row)) + "); (" + CoqStr("item") + ", " + p + ")]"
	}
	panic("resClosureTerm " + src)
}

// the table format map of a style (key table), if any
func tableFormatOf(style *XT) *XT {
	if style == nil || style.Kind != "map" {
		return nil
	}
	for i, k := range style.Keys {
		if k == "table" && style.Items[i].Kind == "map" {
			return style.Items[i]
		}
	}
	return nil
}

// tableExporter.format's choice for (row, col): the source of a result closure, or ""
func tfResClosureAt(tf *XT, row, col int) string {
	for _, key := range []string{fmt.Sprintf("r%dc%d", row, col), fmt.Sprintf("r%d", row), fmt.Sprintf("c%d", col), "all"} {
		for i, k := range tf.Keys {
			if k == key {
				if f := tf.Items[i]; f.Kind == "closure" && isResClosure(f.S) {
					return f.S
				}
				return ""
			}
		}
	}
	return ""
}

func (t *XT) coqHVal() (string, bool) { return t.coqHValTF(nil) }

// tf: the table format of the style toHtml is called with (through Format and Link), if it has one
func (t *XT) coqHValTF(tf *XT) (string, bool) {
	switch t.Kind {
	case "nil":
		return "HNil", true
	case "list":
		if tf == nil || len(t.Items) == 0 || t.Items[0].Kind != "list" {
			break
		}
		// a table with a table format: the items a succeeding closure format applies to carry its result
		cell := func(it *XT, row, col int) (string, bool) {
			p, ok := it.coqHVal()
			if !ok {
				return "", false
			}
			if src := tfResClosureAt(tf, row, col); src != "" {
				return "HCell (" + resClosureTerm(src, p, row, col) + ") (" + p + ")", true
			}
			return p, true
		}
		var rows []string
		for i, row := range t.Items {
			if row.Kind != "list" {
				p, ok := cell(row, i+1, 1)
				if !ok {
					return "", false
				}
				rows = append(rows, p)
				continue
			}
			var cells []string
			for j, it := range row.Items {
				p, ok := cell(it, i+1, j+1)
				if !ok {
					return "", false
				}
				cells = append(cells, p)
			}
			if row.Repr == "iter-fail" {
				cells = append(cells, "HErr")
			}
			rows = append(rows, "HL "+CoqList(cells))
		}
		if t.Repr == "iter-fail" {
			rows = append(rows, "HErr")
		}
		return "HL " + CoqList(rows), true
	}
	switch t.Kind {
	case "int", "bool", "str":
		return "HS " + CoqStr(scalarString(t.Build())), true
	case "float":
		f := math.Float64frombits(t.FBits)
		return "HFloat " + CoqStr(export.NewFormattedFloat(f, 6).Unicode()), true
	case "list":
		parts := make([]string, len(t.Items))
		for i, it := range t.Items {
			p, ok := it.coqHVal()
			if !ok {
				return "", false
			}
			parts[i] = p
		}
		if t.Repr == "iter-fail" {
			parts = append(parts, "HErr")
		}
		return "HL " + CoqList(parts), true
	case "map":
		// entries in the order given; the model sorts
		var parts []string
		for i, k := range t.Keys {
			p, ok := t.Items[i].coqHVal()
			if !ok {
				return "", false
			}
			parts = append(parts, "("+CoqStr(k)+", "+p+")")
		}
		return "HM " + CoqList(parts), true
	case "format":
		p, ok := t.Items[0].coqHValTF(tableFormatOf(t.Style))
		if !ok {
			return "", false
		}
		if t.Style != nil && t.Style.Kind == "closure" && t.Style.S != failingClosure {
			// a closure style that succeeds: its result for the wrapped value is handed to the model as data
			inner := t.Items[0]
			r := ""
			switch t.Style.S {
			case "x->x":
				r = p
			case "x->\"<b>\"+string(x)+\"</b>\"":
				if inner.Kind != "str" && inner.Kind != "int" && inner.Kind != "bool" {
					return "", false
				}
				r = "HS " + CoqStr("<b>"+scalarString(inner.Build())+"</b>")
			case "x->[x,\"&\"]":
				r = "HL [" + p + "; HS " + CoqStr("&") + "]"
			case "x->{v:x}":
				r = "HM [(" + CoqStr("v") + ", " + p + ")]"
			default:
				return "", false
			}
			return fmt.Sprintf("HFmtClo %s %d (%s) (%s)", CoqBool(t.Cell), t.ColSpan, r, p), true
		}
		st, ok := t.Style.coqStyle()
		if !ok {
			return "", false
		}
		return fmt.Sprintf("HFmt %s %d (%s) (%s)", CoqBool(t.Cell), t.ColSpan, st, p), true
	case "link":
		p, ok := t.Items[0].coqHValTF(tf)
		if !ok {
			return "", false
		}
		return "HLnk " + CoqStr(t.S) + " (" + p + ")", true
	case "file":
		// base64 and the byteSize text are Go's (oracle strings for the model)
		us, unit := len(t.Data), 0
		units := []string{"Bytes", "kBytes", "MBytes", "GBytes", "TBytes"}
		for us > 10000 && unit < len(units)-1 {
			unit++
			us = us / 1024
		}
		return fmt.Sprintf("HFile %s %s %s %s", CoqStr(t.S), CoqStr(t.Mime), CoqStr(base64.StdEncoding.EncodeToString(t.Data)), CoqStr(strconv.Itoa(us)+" "+units[unit])), true
	}
	return "", false
}

// ---------------------------------------------------------------- command

type c18Repro struct {
	Kind       string     `json:"kind"`
	Tree       *XT        `json:"tree,omitempty"`
	HTML       *htmlCase  `json:"html,omitempty"`
	History    []c18Repro `json:"history,omitempty"`
	Concurrent int        `json:"concurrent,omitempty"`
}

// a ToHtml result of a history, looked at after the last export
func c18HTMLHistCheck(hc *htmlCase, real htmlRun, hist *c18Hist, id int, sum *Summary, cw *CaseWriter) {
	sum.Evaluations++
	sum.Count("kind", "html-history")
	human := map[string]any{"kind": "html", "value": hc.Tree.Human(), "maxListSize": hc.MaxList, "inlineStyle": hc.Inline, "exported": real.Res,
		"repro": hist.repro(), "signature": "html:spec",
		"history": fmt.Sprintf("document %d of a history of %d exports, looked at after the last export", hist.Pos+1, len(hist.Seq))}
	sum.Cases[fmt.Sprint(id)] = human
	viol := func(what, sig, exp, obs string) {
		human["signature"] = "html:" + sig
		sum.GoViolations = append(sum.GoViolations, GoViolation{CaseID: id, What: what, Sig: "html:" + sig, Human: human, Expected: exp, Observed: obs})
	}
	if real.Panic != nil {
		viol(fmt.Sprintf("ToHtml panics: %v", real.Panic), "panic", "an error value", "panic")
		return
	}
	if real.Err != nil {
		if m := hc.coqModelInput(); m != "None" {
			cw.Add(fmt.Sprintf("KHtmlErr %d %s", id, strings.TrimSuffix(strings.TrimPrefix(m, "(Some "), ")")))
		}
		return
	}
	forest, perr := xmlForest([]byte(real.Res))
	goForest := "None"
	if perr == nil {
		goForest = "Some " + coqForest(forest)
	}
	cw.Add(fmt.Sprintf("KHtml %d %s false %s (%s)", id, hc.coqModelInput(), CoqBytesAsRunes([]byte(real.Res)), goForest))
	if real.Res != hist.Snap {
		viol("the markup an earlier ToHtml returned was changed by a later export", "history:returned-document-changed-by-later-export", hist.Snap, real.Res)
		return
	}
	if perr != nil {
		viol("encoding/xml rejects the markup ToHtml produced: "+perr.Error(), "not-well-formed", "well-formed markup", real.Res)
	}
}

// c18RunHistory runs the exports one after the other (xml histories also spread over goroutines), keeps what each
// returned without copying, and checks everything only after the last export
func c18RunHistory(seq []c18Repro, concurrent int, id *int, sum *Summary, cw *CaseWriter) {
	n := len(seq)
	built := make([]value.Value, n)
	for i, it := range seq {
		if it.Kind == "html" {
			built[i] = it.HTML.Tree.Build()
		} else {
			built[i] = it.Tree.Build()
		}
	}
	type result struct {
		out  []byte
		err  error
		pan  any
		html htmlRun
		snap string
	}
	res := make([]result, n)
	one := func(i int) {
		if seq[i].Kind == "html" {
			hc := seq[i].HTML
			res[i].html = runToHtml(built[i], hc.MaxList, nil, hc.Inline)
			res[i].snap = strings.Clone(res[i].html.Res)
		} else {
			res[i].out, res[i].err, res[i].pan = exportXML(built[i])
			res[i].snap = string(res[i].out)
		}
	}
	if concurrent <= 1 {
		for i := range seq {
			one(i)
		}
	} else {
		var wg sync.WaitGroup
		for g := 0; g < concurrent; g++ {
			wg.Add(1)
			go func(g int) {
				defer wg.Done()
				for i := g; i < n; i += concurrent {
					one(i)
				}
			}(g)
		}
		wg.Wait()
	}
	mode := "sequential"
	if concurrent > 1 {
		mode = "concurrent"
	}
	sum.Count("histories", fmt.Sprintf("%s:%s:%d", seq[0].Kind, mode, n))
	for i, it := range seq {
		*id++
		h := &c18Hist{Seq: seq, Pos: i, Concurrent: concurrent, Snap: res[i].snap}
		if it.Kind == "html" {
			c18HTMLHistCheck(it.HTML, res[i].html, h, *id, sum, cw)
		} else {
			c18XMLCheck(it.Tree, built[i], res[i].out, res[i].err, res[i].pan, h, *id, sum, cw)
		}
	}
}

// histories of one kind with document sizes decreasing (0), increasing (1), equal (2) or in random order (3)
func (r *Rng) genC18History(html bool, pattern int) []c18Repro {
	k := 2 + r.Pick(5)
	gen := func() c18Repro {
		if html {
			max := 1 + r.Pick(4)
			return c18Repro{Kind: "html", HTML: &htmlCase{Tree: r.genHTMLTree(1+r.Pick(3), max), MaxList: max, Inline: r.Chance(0.6)}}
		}
		return c18Repro{Kind: "xml", Tree: r.genXMLTree(1+r.Pick(3), true)}
	}
	var seq []c18Repro
	if pattern == 2 {
		it := gen()
		for i := 0; i < k; i++ {
			seq = append(seq, it)
		}
		return seq
	}
	for i := 0; i < k; i++ {
		seq = append(seq, gen())
	}
	if pattern < 2 {
		size := func(it c18Repro) int {
			if it.Kind == "html" {
				return len(runToHtml(it.HTML.Tree.Build(), it.HTML.MaxList, nil, it.HTML.Inline).Res)
			}
			out, _, _ := exportXML(it.Tree.Build())
			return len(out)
		}
		sizes := make(map[int]int)
		for i, it := range seq {
			sizes[i] = size(it)
		}
		idx := make([]int, len(seq))
		for i := range idx {
			idx[i] = i
		}
		sort.SliceStable(idx, func(a, b int) bool {
			if pattern == 0 {
				return sizes[idx[a]] > sizes[idx[b]]
			}
			return sizes[idx[a]] < sizes[idx[b]]
		})
		sorted := make([]c18Repro, len(seq))
		for i, j := range idx {
			sorted[i] = seq[j]
		}
		seq = sorted
	}
	return seq
}

func cmdC18(seed int64, tier, outDir string) {
	nx, nh := 450, 350
	if tier == "thorough" {
		nx, nh = 20000, 12000
	}
	r := NewRng(seed)
	sum := NewSummary("C18", seed, tier)
	sum.Rule = "xml: list/map trees (depth<=4, every list/map representation, Format/Link wrappers, File scalars, strings and keys of legal XML characters with markup pieces boosted: < > & ' \" ]]> comment/CDATA/entity look-alikes, blanks, =, CR LF TAB, leading/trailing blanks, reserved and non-name keys) through export.XML(); html: the same scalars plus http/https/host strings, lists and tables with lengths around maxListSize, maps, Format with string/map/table/closure styles, Cell/ColSpan, Link, File through export.ToHtml in both style modes. Non-trivial = (xml) at least one markup-significant character in a key AND in a text/attribute string, (html) such a character in a data string of a tree containing a Format, Link or File wrapper; distinct by output bytes; history mode: sequences of 2-6 XML exports / ToHtml calls on one goroutine (sizes decreasing, increasing, equal, random; XML also spread over 2-4 goroutines), every returned document kept without copying and checked only after the last export (byte-identical to what was returned, model bytes, well-formedness, format reader)"
	cw := NewCaseWriter(outDir, "From P2 Require Import Base.Prelude Exp.Xml Exp.Html Run.C18Run.", "c18_case", "c18_id", "c18_im", "c18_is", 100)
	id := 0
	if optReplay != "" {
		var rp c18Repro
		if err := json.Unmarshal(loadReplayCase(), &rp); err != nil {
			fatal("replay case: %v", err)
		}
		if rp.Kind == "history" {
			hid := 0
			c18RunHistory(rp.History, rp.Concurrent, &hid, sum, cw)
		} else if rp.Kind == "html" {
			c18HTMLCase(rp.HTML, 1, sum, cw)
		} else {
			c18XMLCase(rp.Tree, 1, sum, cw)
		}
		cw.Flush()
		sum.CaseFiles = cw.files
		sum.Write(outDir)
		return
	}
	nx *= optBoost
	nh *= optBoost
	// witnesses computed by the model when the table obligation is broken: in text, in an attribute value, in a key
	for _, c := range extraRunes() {
		id++
		c18XMLCase(xl(xs("a"+string(c)+"b")), id, sum, cw)
		id++
		c18XMLCase(xm("k", xs("a"+string(c)+"b")), id, sum, cw)
		id++
		c18XMLCase(xm("k"+string(c), xl()), id, sum, cw)
	}
	// corpus first: the inputs that failed before the repairs, and one-character probes in all three sinks
	corpus := []*XT{
		xm("a=\"1\" b", xi(2)),
		xm("xmlns", xs("foo")), xm("a:b", xs("foo")), xm("", xs("foo")), xm("\u00e4", xs("foo"), "\ua000", xi(1)), xm("a b", xi(1)), xm("1a", xi(1)),
		xm("k\n", xl()), xm("<k>", xi(1)), xm("XML", xi(1)), xm("xm", xi(1), "a.b-c_d", xs("v")),
		xl(xs("a\rb"), xs("a\r\nb")), xm("k", xs("a\nb\tc\rd")),
		xl(xs(""), xs(" \n\t"), xl()), xl(xs("]]>"), xs("<![CDATA[x]]>"), xs("<!-- c -->"), xs("&amp;"), xs("&#60;")),
		xm("k", xfmt(xs("s"), xs("v"))), xm("k", xlink("l", xs("v"))), xm("k", xlink("l", xfmt(xs("s"), xs("v")))), xm("k", xlink("l", xl())),
		xl(xfmt(xs("<s>"), xm("a", xs("<"))), xlink("\"l\"", xl(xs("'")))),
	}
	for _, t := range corpus {
		id++
		c18XMLCase(t, id, sum, cw)
	}
	for _, c := range []rune{'<', '>', '&', '\'', '"', '\r', '\n', '\t', ' ', '=', '/', 0x85, 0xa0, 0x2028, 0xd7ff, 0xe000, 0xfffd, 0x10000, 0x10ffff} {
		s := string(c)
		id++
		c18XMLCase(xl(xs("a"+s+"b"), xs(s)), id, sum, cw)
		id++
		c18XMLCase(xm("k", xs("a"+s+"b"), "j", xs(s)), id, sum, cw)
		id++
		c18XMLCase(xm("k"+s, xi(1)), id, sum, cw)
		id++
		c18XMLCase(xm("k"+s, xl(xs(s))), id, sum, cw)
	}
	htmlCorpus := []*htmlCase{
		{Tree: xl(xs("a\rb<"), xs("host:x\"y")), MaxList: 10, Inline: true},
		{Tree: xs("http://a/b?x=1&y=\"2\""), MaxList: 3, Inline: true},
		{Tree: xfmt(xs("color:red\" onclick=\"alert(1)"), xs("<script>")), MaxList: 3, Inline: true},
		{Tree: xfmt(xs("a\tb\nc"), xl(xi(1), xi(2))), MaxList: 1, Inline: true},
		{Tree: xfmt(xs("</style>"), xs("x")), MaxList: 3, Inline: false},
		{Tree: xlink("javascript:alert('1')\r\n", xs("<b>")), MaxList: 3, Inline: true},
		{Tree: xm("<td>", xs("v"), "k\"", xl(xs("&"))), MaxList: 3, Inline: true},
		{Tree: &XT{Kind: "file", S: "a\".txt\n", Mime: "text/x\"y", Data: []byte("<&>")}, MaxList: 3, Inline: true},
		{Tree: xfmt(xm("font_weight", xs("bold;\""), "<k>", xi(3)), xs("v")), MaxList: 3, Inline: true},
		{Tree: xl(xl(xs("<"), xs(">")), xl(xs("&"), xs("'"), xs("\""))), MaxList: 2, Inline: true},
		{Tree: xfmt(xs("plainList"), xl(xs("<a>"), xlink("l", xs("in\rner")), xi(2))), MaxList: 1, Inline: true},
		// failures must be errors
		{Tree: xfmt(&XT{Kind: "closure", S: "x->throw(\"boom\")"}, xs("v")), MaxList: 3, Inline: true, WantErr: true},
		{Tree: xl(xs("a"), xfmt(&XT{Kind: "closure", S: "x->throw(\"boom\")"}, xl(xs("v")))), MaxList: 3, Inline: true, WantErr: true},
		{Tree: xl(xs("a"), xfmt(&XT{Kind: "closure", S: "x->throw(\"boom\")"}, xs("v"))), MaxList: 3, Inline: true},
		// around the cut-off: the failing element is the last rendered one / the first one replaced by more...
		{Tree: xl(xs("a"), xfmt(&XT{Kind: "closure", S: failingClosure}, xl(xs("v"))), xs("c")), MaxList: 2, Inline: true, WantErr: true},
		{Tree: xl(xs("a"), xs("b"), xfmt(&XT{Kind: "closure", S: failingClosure}, xl(xs("v")))), MaxList: 2, Inline: true},
		{Tree: xl(xl(xs("a"), xfmt(&XT{Kind: "closure", S: failingClosure}, xl(xs("v")))), xl(xs("b"))), MaxList: 2, Inline: false, WantErr: true},
		{Tree: xl(xl(xs("a"), xs("b"), xfmt(&XT{Kind: "closure", S: failingClosure}, xl(xs("v")))), xl(xs("b"))), MaxList: 2, Inline: false},
		{Tree: xm("k", xlink("l", xfmt(&XT{Kind: "closure", S: failingClosure}, xs("v")))), MaxList: 2, Inline: true, WantErr: true},
		{Tree: xfmt(xs("plainList"), xl(xs("a"), xfmt(&XT{Kind: "closure", S: failingClosure}, xi(1)))), MaxList: 1, Inline: true, WantErr: true},
		{Tree: xl(xs("a"), &XT{Kind: "bool", B: true}), MaxList: 3, Inline: true, Custom: "panic", WantErr: true},
		{Tree: xm("k", &XT{Kind: "bool", B: true}), MaxList: 3, Inline: false, Custom: "error", WantErr: true},
		{Tree: xl(xs("<x>"), &XT{Kind: "bool", B: true}), MaxList: 3, Inline: true, Custom: "raw"},
	}
	for _, hc := range htmlCorpus {
		id++
		c18HTMLCase(hc, id, sum, cw)
	}
	for i := 0; i < nx; i++ {
		id++
		c18XMLCase(r.genXMLTree(1+r.Pick(4), true), id, sum, cw)
	}
	for i := 0; i < nh; i++ {
		id++
		max := 1 + r.Pick(4)
		hc := &htmlCase{Tree: r.genHTMLTree(1+r.Pick(4), max), MaxList: max, Inline: r.Chance(0.6)}
		if r.Chance(0.05) {
			hc.Custom = "raw"
		}
		c18HTMLCase(hc, id, sum, cw)
	}
	// history mode: 2-6 exports on one goroutine (xml also spread over goroutines), all results kept and looked at
	// only after the last export
	bigX, smallX := c18Repro{Kind: "xml", Tree: xl(xs("aaaaaaaa"), xs("bbbbbbbb"), xs("cccccccc"))}, c18Repro{Kind: "xml", Tree: xl(xs("x"))}
	bigH, smallH := c18Repro{Kind: "html", HTML: &htmlCase{Tree: xl(xs("aaaaaaaa"), xs("bbbbbbbb")), MaxList: 3, Inline: true}}, c18Repro{Kind: "html", HTML: &htmlCase{Tree: xs("x"), MaxList: 3, Inline: true}}
	for _, seq := range [][]c18Repro{{bigX, smallX}, {smallX, bigX}, {bigX, bigX, bigX}, {bigH, smallH}, {smallH, bigH, bigH}, {bigX, smallH, smallX, bigH}} {
		c18RunHistory(seq, 0, &id, sum, cw)
	}
	nhist := 24
	if tier == "thorough" {
		nhist = 1000
	}
	nhist *= optBoost
	for h := 0; h < nhist; h++ {
		html := h%3 == 2
		conc := 0
		if !html && h%8 == 7 {
			conc = 2 + r.Pick(3)
		}
		c18RunHistory(r.genC18History(html, h%4), conc, &id, sum, cw)
	}
	// additive corpus (kept behind everything else so that the ids and the random stream of the cases above do not
	// move): table formats rNcM / rN / cN / all with constant styles and a failing closure, File values in cells
	tfm := func(kv ...any) *XT { m := xm(kv...); return m }
	tbl := xl(xl(xs("a<1"), xs("b"), xs("c")), xl(xs("d"), xfmt(xs("own"), xs("e&")), xs("f")), xs("lonely"), xl(xs("g")))
	file := &XT{Kind: "file", S: "n\".txt", Mime: "", Data: []byte("0123456789")}
	for _, st := range []*XT{
		tfm("color", xs("red"), "table", tfm("r1c1", xs("a:\"1\""), "r2", xs("row2"), "c2", tfm("font_weight", xs("bold")), "all", xs("<all>"))),
		tfm("table", tfm("all", &XT{Kind: "closure", S: failingClosure}, "r1", xs("x"))),
		tfm("table", tfm("r3c1", xs("single")), "width", xi(3)),
		tfm("table", tfm("r2c2", &XT{Kind: "closure", S: "x->x"}, "r2", xs("row2"), "c1", &XT{Kind: "closure", S: "x->x"}, "all", xs("rest"))),
		tfm("table", tfm()),
	} {
		for _, max := range []int{1, 2, 3} {
			for _, inline := range []bool{true, false} {
				id++
				c18HTMLCase(&htmlCase{Tree: xfmt(st, tbl), MaxList: max, Inline: inline}, id, sum, cw)
			}
		}
		id++
		c18HTMLCase(&htmlCase{Tree: xfmt(st, xlink("u", xl(xl(file, xs("x")), xl(xi(1), xl(xs("in")))))), MaxList: 3, Inline: true}, id, sum, cw)
	}
	// additive: nil, failing iteration, table-format closures that succeed with other values (own random stream)
	tfRes := func(kv ...any) *XT { return xm("table", xm(kv...)) }
	tabCorpus := []*htmlCase{
		{Tree: xnil(), MaxList: 3, Inline: true},
		{Tree: xl(xnil(), xs("<never>"), xfmt(xclo(failingClosure), xl(xs("v")))), MaxList: 3, Inline: true},
		{Tree: xl(xs("a"), xnil(), xfmt(xs("s\""), xnil())), MaxList: 3, Inline: false},
		{Tree: xl(xl(xnil(), xs("b")), xnil()), MaxList: 3, Inline: true},
		{Tree: xfmt(xs("plainList"), xl(xnil(), xs("<"))), MaxList: 1, Inline: true},
		{Tree: xm("k<", xnil()), MaxList: 2, Inline: true},
		// the iteration fails: at the last rendered element, at the first element past the cut-off, one later
		{Tree: xfail(xs("a")), MaxList: 2, Inline: true, WantErr: true},
		{Tree: xfail(xs("a"), xs("b")), MaxList: 2, Inline: true, WantErr: true},
		{Tree: xfail(xs("a"), xs("b"), xs("c")), MaxList: 2, Inline: true},
		{Tree: xfail(), MaxList: 2, Inline: true, WantErr: true},
		{Tree: xfail(xnil()), MaxList: 2, Inline: true},
		{Tree: xl(xl(xs("a")), xfail(xs("b"), xs("c"))), MaxList: 2, Inline: true, WantErr: true},
		{Tree: xl(xl(xs("a")), xfail(xs("b"), xs("c"), xs("d"))), MaxList: 2, Inline: true},
		{Tree: xl(xl(xs("a")), xl(xs("b")), xfail(xs("c"))), MaxList: 2, Inline: true},
		{Tree: xfail(xl(xs("a")), xl(xs("b"))), MaxList: 2, Inline: false, WantErr: true},
		{Tree: xfmt(xs("plainList"), xfail(xs("a"), xs("b"), xs("c"))), MaxList: 1, Inline: true, WantErr: true},
		{Tree: xm("k", xfail(xs("a"))), MaxList: 2, Inline: true, WantErr: true},
		// table-format closures whose result is rendered in place of the item
		{Tree: xfmt(tfRes("all", xclo("x->[x,\"&\"]")), xl(xl(xs("<a>"), xi(2)), xs("lonely"), xl(xnil()))), MaxList: 3, Inline: true},
		{Tree: xfmt(tfRes("c2", xclo("x->{v:x}"), "r1", xs("row\"1")), xl(xl(xs("a"), xs("b")), xl(xs("c"), xfmt(xs("st"), xs("d<"))))), MaxList: 3, Inline: false},
		{Tree: xfmt(tfRes("all", xclo("(r,c,x)->[r,c,x]")), xlink("l", xl(xl(xs("a"), xs("b"), xs("c")), xl(xs("d"))))), MaxList: 2, Inline: true},
		{Tree: xfmt(tfRes("r1c1", xclo("(r,c,x)->{row:r,item:x}"), "all", xclo("x->x")), xl(xl(xl(xs("in"), xs("ner")), xs("b")))), MaxList: 2, Inline: true},
		{Tree: xfmt(tfRes("all", xclo("x->[x,\"&\"]")), xl(xl(xfmt(xclo(failingClosure), xl(xs("v")))))), MaxList: 2, Inline: true, WantErr: true},
	}
	for _, hc := range tabCorpus {
		id++
		c18TabCount(hc, sum)
		c18HTMLCase(hc, id, sum, cw)
	}
	ntab := 160
	if tier == "thorough" {
		ntab = 6000
	}
	rt := NewRng(seed ^ 0x18ab)
	for i := 0; i < ntab*optBoost; i++ {
		id++
		hc := rt.genTabCase(1 + rt.Pick(3))
		c18TabCount(hc, sum)
		c18HTMLCase(hc, id, sum, cw)
	}
	c18Sweep(tier, &id, sum, cw)
	cw.Flush()
	sum.CaseFiles = cw.files
	sort.SliceStable(sum.GoViolations, func(i, j int) bool {
		return len(sum.GoViolations[i].Observed)+len(sum.GoViolations[i].Expected) < len(sum.GoViolations[j].Observed)+len(sum.GoViolations[j].Expected)
	})
	sum.Write(outDir)
}
