package main

// C04 - parsing is total: any input yields an AST/function or an error, never a panic or a hang.
//
// Every input runs in an isolated worker process (this binary re-executes itself as `c04worker`, 16 workers, a batch of
// inputs per worker, a watchdog per input).  Observed per input: the token stream of the tokenizer Parse would start
// (hook VerifTokens), the outcome of FunctionGenerator.Generate (function / error / panic / no return within the time
// bound / worker died), the wall time of Generate, the number of tokens the parser had received when it returned
// (hook VerifParseReceived).  Compared in Coq (Run/C04Run.v):
//   c04_im  the scanner model Tok.tokenize yields exactly the observed tokens, on malformed input too;
//   c04_is  the outcome is "function or error", a successful parse received every token, the protocol model ends.
// Go-side oracle: Generate returned (no panic, no timeout, no crash) - a GoViolation otherwise.
// The input streams (c04Streams) are shared with C12.

import (
	"bufio"
	"bytes"
	"encoding/hex"
	"encoding/json"
	"fmt"
	"io"
	"log"
	"os"
	"os/exec"
	"path/filepath"
	"regexp"
	"runtime"
	"sort"
	"strconv"
	"strings"
	"sync"
	"time"
	"unicode"
	"unicode/utf8"

	"github.com/hneemann/parser2"
	"github.com/hneemann/parser2/example"
	"github.com/hneemann/parser2/funcGen"
	"github.com/hneemann/parser2/value"
)

func init() {
	register("c04", cmdC04)
	register("c04worker", cmdC04Worker)
}

// ---------------------------------------------------------------- cases

// C4Seg is a piece of input repeated N times; the text travels hex-encoded (it may be invalid UTF-8)
type C4Seg struct {
	Hex string `json:"hex"`
	N   int    `json:"n"`
}

// C4Case is one input with its configuration (what a replay file carries)
type C4Case struct {
	ID       int     `json:"id"`
	Gen      string  `json:"gen"` // value | bool | float | empty | lastunary
	Comments bool    `json:"comments"`
	Comfort  bool    `json:"comfort"`
	Segs     []C4Seg `json:"segs"`
	Src      string  `json:"src"`
	Deep     int     `json:"deep,omitempty"` // nesting depth the generator aimed at (deep family)
	NoOpt    bool    `json:"noopt,omitempty"` // the parser's optimizer is switched off for this input
	Eval     bool    `json:"eval,omitempty"`  // a returned function is also evaluated (must return too)
}

func c04Text(segs []C4Seg) string {
	var b strings.Builder
	for _, s := range segs {
		bs, _ := hex.DecodeString(s.Hex)
		for i := 0; i < s.N; i++ {
			b.Write(bs)
		}
	}
	return b.String()
}

func c04Seg(s string, n int) C4Seg { return C4Seg{Hex: hex.EncodeToString([]byte(s)), N: n} }

func c04Plain(gen string, comments, comfort bool, src, text string) C4Case {
	return C4Case{Gen: gen, Comments: comments, Comfort: comfort, Src: src, Segs: []C4Seg{c04Seg(text, 1)}}
}

// ---------------------------------------------------------------- generators under test

var c04Gens = []string{"value", "bool", "float", "empty", "lastunary"}

type c04Gen struct {
	name     string
	generate func(src string) error // FunctionGenerator.Generate; the function itself is dropped
	genEval  func(src string) (func() error, error) // Generate; the returned closure evaluates the function on arguments
	tokens   func(src string) []parser2.VerifToken
	received func(src string) (int, int, error)
	config   func() (ops []string, textOps map[string]string, kws []string)
	setup    func(comments, comfort bool)
	setOpt   func(on bool)
	parseKind func(src string) int                  // Parser.Parse with the current optimizer setting: 0 AST, 1 error, 2 panic
	ident    func(name string) (known, isFunc bool)  // the generator's identifier chain below the arguments
	pconfig  func() (ops, unary []string)
}

func c04NumberParser() parser2.NumberParser[float64] {
	return parser2.NumberParserFunc[float64](func(n string) (float64, error) { return strconv.ParseFloat(n, 64) })
}

func c04MakeGen[V any](name string, g *funcGen.FunctionGenerator[V], arg V, args ...string) *c04Gen {
	// pure host functions whose constant folding panics / fails (the fold-bomb stream)
	g.AddStaticFunction("ppanic", funcGen.Function[V]{Func: func(st funcGen.Stack[V], cs []V) (V, error) { panic("host function panics") }, Args: 1, IsPure: true})
	g.AddStaticFunction("perr", funcGen.Function[V]{Func: func(st funcGen.Stack[V], cs []V) (V, error) {
		var zero V
		return zero, fmt.Errorf("host function fails")
	}, Args: 1, IsPure: true})
	p := g.GetParser()
	optimizer := funcGen.VerifOptimizer(g)
	argv := make([]V, len(args))
	for i := range argv {
		argv[i] = arg
	}
	return &c04Gen{
		name:     name,
		generate: func(src string) error { _, _, err := g.Generate(src, args...); return err },
		genEval: func(src string) (func() error, error) {
			f, _, err := g.Generate(src, args...)
			if err != nil {
				return nil, err
			}
			return func() error { _, e := f.Eval(argv...); return e }, nil
		},
		tokens:   func(src string) []parser2.VerifToken { return p.VerifTokens(src) },
		received: func(src string) (int, int, error) { return p.VerifParseReceived(src, g.Identifier().AddArgs(args, nil)) },
		config: func() ([]string, map[string]string, []string) {
			ops, to, kw, _, _ := p.VerifTokenizerConfig()
			return ops, to, kw
		},
		setup: func(comments, comfort bool) { p.VerifSetComments(comments); p.Comfort(comfort) },
		parseKind: func(src string) (kind int) {
			defer func() {
				if r := recover(); r != nil {
					kind = 2
				}
			}()
			if _, err := p.Parse(src, g.Identifier().AddArgs(args, nil)); err != nil {
				return 1
			}
			return 0
		},
		ident: func(name string) (bool, bool) {
			ids := g.Identifier()
			if ids == nil {
				return false, false
			}
			i, ok := ids(name)
			return ok, ok && i.IsFunc
		},
		pconfig: func() ([]string, []string) {
			ops, unary, _, _ := p.VerifParseConfig()
			return ops, unary
		},
		setOpt: func(on bool) {
			if on {
				p.SetOptimizer(optimizer)
			} else {
				p.SetOptimizer(nil)
			}
		},
	}
}

var c04GenCache = map[string]*c04Gen{}

var c04Args = []string{"a", "b", "c", "x", "y", "f"}

func c04GetGen(name string) *c04Gen {
	if g, ok := c04GenCache[name]; ok {
		return g
	}
	var g *c04Gen
	switch name {
	case "value":
		g = c04MakeGen[value.Value](name, value.New().FunctionGenerator, value.Int(1), c04Args...)
	case "bool":
		g = c04MakeGen(name, example.VerifBool(), true, c04Args...)
	case "float":
		g = c04MakeGen(name, example.VerifFloat(), 1.0, c04Args...)
	case "empty": // a generator without any binary operator
		g = c04MakeGen(name, funcGen.New[float64]().SetNumberParser(c04NumberParser()), 1.0, c04Args...)
	case "lastunary": // the prefix operator is also the binary operator of the highest priority
		fg := funcGen.New[float64]().SetNumberParser(c04NumberParser()).
			AddSimpleOp("+", true, func(a, b float64) (float64, error) { return a + b, nil }).
			AddSimpleOp("-", false, func(a, b float64) (float64, error) { return a - b, nil }).
			AddUnaryFunc("-", func(a float64) (float64, error) { return -a, nil })
		g = c04MakeGen(name, fg, 1.0, c04Args...)
	default:
		fatal("unknown generator %s", name)
	}
	c04GenCache[name] = g
	return g
}

// ---------------------------------------------------------------- worker

// C4Result is what the worker reports for one input
type C4Result struct {
	ID        int                   `json:"id"`
	Outcome   int                   `json:"outcome"` // 0 function, 1 error, 2 panic, 3 timeout, 4 crash
	Msg       string                `json:"msg,omitempty"`
	Site      string                `json:"site,omitempty"` // innermost parser2 frame of a panic
	Micros    int64                 `json:"us"`      // judged time: min(wall, process CPU) of Generate
	WallMicros int64                `json:"wall_us"`
	Tokens    []parser2.VerifToken  `json:"tokens"`
	TokHang   bool                  `json:"tok_hang,omitempty"`
	StackKB   int64                 `json:"stack_kb"` // memory the process obtained from the OS during Generate (MemStats.Sys): deep recursion = stack
	RecvKnown bool                  `json:"recv_known"`
	Received  int                   `json:"received"`
	Total     int                   `json:"total"`
	Phase     string                `json:"phase,omitempty"`
	PKind     int                   `json:"pkind"`     // Parser.Parse: 0 AST, 1 error, 2 panic, 3 not observed
	BadNums   []string              `json:"bad_nums,omitempty"`
	Known     [][2]string           `json:"known,omitempty"` // identifiers of the input the generator knows: name, "c"|"f"
}

// time bound for Generate on an input of n bytes: the property's "linear-ish".
// 50 us per byte + 50 ms is the design bound.  Every level of recursion through parseExpression (a parenthesis, a list or
// map literal, a closure body, an argument, a branch of if ...) costs one parser frame per operator priority, about 8.5 KB
// of goroutine stack for the 18-operator value grammar; the first touch of that memory dominates the run time of deeply
// nested input on this machine.  The memory the call made the process obtain from the OS is measured (growth of
// MemStats.Sys: goroutine stack, AST) and paid for with 250 us per KB; it must stay linear in the input (c04StackBoundKB).
func c04Bound(n int, stackKB int64) time.Duration {
	return 50*time.Millisecond + time.Duration(n)*50*time.Microsecond + time.Duration(stackKB)*250*time.Microsecond
}

// the fold-bomb stream: every fold at Generate time and the evaluation of the returned function may run into the
// evaluator's 10000-slot stack guard (about 10000 nested interpreter calls, 70-450 ms on this machine when run alone):
// a cost bounded by the guard, not by the input
const c04GuardAllowance = 2 * time.Second

func c04BoundCase(c *C4Case, n int, stackKB int64) time.Duration {
	b := c04Bound(n, stackKB)
	if c.Eval {
		b += c04GuardAllowance
	}
	return b
}

func c04StackBoundKB(n int) int64 { return 16*1024 + 32*int64(n) }

func c04Depth(ts []parser2.VerifToken) int {
	d, max := 0, 0
	for _, t := range ts {
		switch t.Typ {
		case tOpen, tOpenBracket, tOpenCurly:
			d++
			if d > max {
				max = d
			}
		case tClose, tCloseBracket, tCloseCurly:
			if d > 0 {
				d--
			}
		}
	}
	return max
}

var c04FrameRe = regexp.MustCompile(`github.com/hneemann/parser2(?:/funcGen|/value)?\.(?:\(\*?[A-Za-z]+(?:\[[^\]]*\])?\)\.)?([A-Za-z]+)`)

func c04PanicSite(stack string) string {
	for _, l := range strings.Split(stack, "\n") {
		if m := c04FrameRe.FindStringSubmatch(l); m != nil && !strings.Contains(l, "verif") {
			return m[1]
		}
	}
	return "unknown"
}

// hard limit after which the worker gives up on an input: far above the judged bound, so that a slow machine is
// told apart from a hang by the judge, not by the watchdog
func c04Hard(n int) time.Duration {
	return 3*time.Second + time.Duration(n)*2*time.Millisecond
}

func c04RunOne(c *C4Case, hardScale float64) C4Result {
	g := c04GetGen(c.Gen)
	g.setup(c.Comments, c.Comfort)
	g.setOpt(!c.NoOpt)
	src := c04Text(c.Segs)
	res := C4Result{ID: c.ID, PKind: 3}
	hard := time.Duration(float64(c04Hard(len(src))) * hardScale)
	if c.Eval {
		hard += 4 * c04GuardAllowance
	}

	// 1. the token stream
	res.Phase = "tokenize"
	tch := make(chan []parser2.VerifToken, 1)
	go func() { tch <- g.tokens(src) }()
	select {
	case res.Tokens = <-tch:
	case <-time.After(hard):
		res.Outcome, res.TokHang, res.Msg = 3, true, "the tokenizer did not reach the end of the input"
		return res
	}

	// 2. Generate, timed, with a watchdog
	res.Phase = "generate"
	type out struct {
		err   error
		pan   any
		stack string
	}
	och := make(chan out, 1)
	evalErr := ""
	var m0, m1 runtime.MemStats
	runtime.ReadMemStats(&m0)
	cpu0 := c12Cpu()
	t0 := time.Now()
	go func() {
		var o out
		defer func() {
			if r := recover(); r != nil {
				o.pan = r
				buf := make([]byte, 1<<16)
				o.stack = string(buf[:runtime.Stack(buf, false)])
			}
			och <- o
		}()
		if c.Eval {
			res.Phase = "generate"
			var ev func() error
			ev, o.err = g.genEval(src)
			if o.err == nil {
				res.Phase = "evaluate"
				if e := ev(); e != nil {
					evalErr = e.Error()
				}
			}
		} else {
			o.err = g.generate(src)
		}
	}()
	select {
	case o := <-och:
		res.Micros = time.Since(t0).Microseconds()
		res.WallMicros = res.Micros
		// judged: the smaller of wall time and CPU time of the process during the call - on a machine that other jobs keep
		// busy the wall time of a 100 us call can be 100 ms; a blocked call consumes no CPU and is caught by the watchdog
		if cpu := (c12Cpu() - cpu0).Microseconds(); cpu < res.Micros {
			res.Micros = cpu
		}
		runtime.ReadMemStats(&m1)
		res.StackKB = (int64(m1.Sys) - int64(m0.Sys)) / 1024
		switch {
		case o.pan != nil:
			res.Outcome, res.Msg, res.Site = 2, fmt.Sprint(o.pan), c04PanicSite(o.stack)
		case o.err != nil:
			res.Outcome, res.Msg = 1, o.err.Error()
		case evalErr != "":
			res.Msg = "evaluation returned the error: " + evalErr
		}
	case <-time.After(hard):
		res.Micros = time.Since(t0).Microseconds()
		res.Outcome, res.Msg = 3, fmt.Sprintf("no return within %v (phase %s)", hard, res.Phase)
		return res
	}
	if len(res.Msg) > 300 {
		res.Msg = res.Msg[:300]
	}

	// 3. how far the parser read (skipped for the very long token streams: it parses once more)
	if len(res.Tokens) <= 20000 && res.Outcome != 2 {
		res.Phase = "received"
		rch := make(chan [2]int, 1)
		go func() {
			defer func() {
				if r := recover(); r != nil {
					rch <- [2]int{-1, -1}
				}
			}()
			a, b, _ := g.received(src)
			rch <- [2]int{a, b}
		}()
		select {
		case r := <-rch:
			if r[0] >= 0 {
				res.RecvKnown, res.Received, res.Total = true, r[0], r[1]
			}
		case <-time.After(hard):
		}
	}
	// 4. the parser half: outcome kind of Parser.Parse, which number images ParseNumber rejects, which identifiers the
	// generator knows (what the parser model needs besides the tokens)
	if len(res.Tokens) <= 300 {
		res.Phase = "parse"
		pch := make(chan int, 1)
		go func() { pch <- g.parseKind(src) }()
		select {
		case res.PKind = <-pch:
		case <-time.After(hard):
			res.Outcome, res.Msg = 3, fmt.Sprintf("Parse did not return within %v", hard)
			return res
		}
		seenN, seenI := map[string]bool{}, map[string]bool{}
		for _, t := range res.Tokens {
			switch {
			case t.Typ == tNumber && !seenN[t.Image]:
				seenN[t.Image] = true
				if g.parseKind(t.Image) != 0 {
					res.BadNums = append(res.BadNums, t.Image)
				}
			case t.Typ == tIdent && !seenI[t.Image]:
				seenI[t.Image] = true
				if known, isFunc := g.ident(t.Image); known {
					k := "c"
					if isFunc {
						k = "f"
					}
					res.Known = append(res.Known, [2]string{t.Image, k})
				}
			}
		}
	}
	res.Phase = ""
	return res
}

func cmdC04Worker(seed int64, tier, outDir string) {
	bs, err := os.ReadFile(outDir)
	if err != nil {
		fatal("worker input: %v", err)
	}
	var cases []C4Case
	if err := json.Unmarshal(bs, &cases); err != nil {
		fatal("worker input: %v", err)
	}
	log.SetOutput(io.Discard)
	w := bufio.NewWriter(os.Stdout)
	for i := range cases {
		r := c04RunOne(&cases[i], 1)
		line, _ := json.Marshal(r)
		w.Write(line)
		w.WriteByte('\n')
		w.Flush()
		if r.Outcome == 3 {
			os.Exit(3) // a goroutine is still spinning or blocked: the driver restarts behind this input
		}
	}
}

// c04Exec runs the cases in worker processes (par at a time) and returns the result per case id
func c04Exec(cases []C4Case, dir, tag string, par int) map[int]*C4Result {
	bin := os.Getenv("P2H")
	if bin == "" {
		bin, _ = os.Executable()
	}
	os.MkdirAll(dir, 0o755)
	// batches: round-robin, so that expensive neighbours are spread
	batches := make([][]C4Case, par)
	for i, c := range cases {
		batches[i%par] = append(batches[i%par], c)
	}
	results := map[int]*C4Result{}
	var mu sync.Mutex
	var wg sync.WaitGroup
	for bi, batch := range batches {
		if len(batch) == 0 {
			continue
		}
		wg.Add(1)
		go func(bi int, todo []C4Case) {
			defer wg.Done()
			for round := 0; len(todo) > 0 && round < 200; round++ {
				in := filepath.Join(dir, fmt.Sprintf("in-%s-%d-%d.json", tag, bi, round))
				bs, _ := json.Marshal(todo)
				os.WriteFile(in, bs, 0o644)
				cmd := exec.Command(bin, "c04worker", "--out", in)
				var stdout, stderr bytes.Buffer
				cmd.Stdout, cmd.Stderr = &stdout, &stderr
				err := cmd.Run()
				seen := 0
				sc := bufio.NewScanner(&stdout)
				sc.Buffer(make([]byte, 1<<20), 1<<28)
				for sc.Scan() {
					var r C4Result
					if json.Unmarshal(sc.Bytes(), &r) == nil && seen < len(todo) && r.ID == todo[seen].ID {
						rr := r
						mu.Lock()
						results[r.ID] = &rr
						mu.Unlock()
						seen++
					}
				}
				if seen >= len(todo) {
					break
				}
				code := -1
				if ee, ok := err.(*exec.ExitError); ok {
					code = ee.ExitCode()
				}
				lastTimedOut := false
				if seen > 0 {
					mu.Lock()
					lastTimedOut = results[todo[seen-1].ID].Outcome == 3
					mu.Unlock()
				}
				if code != 3 || !lastTimedOut {
					// the worker died on the input after the last reported one
					bad := todo[seen]
					msg := c6PanicLine(stderr.String())
					os.WriteFile(filepath.Join(dir, fmt.Sprintf("stderr-%s-%d-%d.txt", tag, bi, round)), stderr.Bytes(), 0o644)
					mu.Lock()
					results[bad.ID] = &C4Result{ID: bad.ID, PKind: 3, Outcome: 4, Msg: fmt.Sprintf("worker process died (exit %d): %s", code, msg), Site: c04PanicSite(stderr.String())}
					mu.Unlock()
					seen++
				}
				todo = todo[seen:]
			}
		}(bi, batch)
	}
	wg.Wait()
	return results
}

// ---------------------------------------------------------------- input streams (shared with C12)

var c04ValuePrograms = []string{
	"a+b*2",
	"let x=1; x+a",
	"func g(n) if n<2 then 1 else n*g(n-1); g(5)",
	"[1,2,3].map(e->e*2).reduce((p,q)->p+q)",
	"{k:1, 'a b':\"s\\n\", m:{z:[a]}}.k",
	"if a=1 then \"one\" else if a=2 then \"two\" else \"many\"",
	"try a.b[0](1,2) catch e->e",
	"switch a case 1: \"x\" case 2: \"y\" default \"z\"",
	"a.size()>0 & !(b=c) | a~[1,2]",
	"-a^2+(b-1)%3 // rest\n/* block */ +1",
	"let f=(p,q)->p<q; f(1,2)",
	"numbers(10).accept(e->e%2=0).map(e->e<<1).string()",
	"\"a\\\"b\"+'q r'+1.5e-3+x²",
	"sprintf(\"%d\",[1,2][0]) != \"\" & true",
	"a?:b",
}
var c04BoolPrograms = []string{"a&b|!c", "(a=b)^true&!false|c", "!a", "true", "a&(b|(c&(a|b)))"}
var c04FloatPrograms = []string{"sin(pi*x)^2+3x", "2(a+b)(a-b)/-c", "sqrt(sqr(a)+sqr(b))<c=1", "1.5e3*-x", "a b c"}
var c04MiniPrograms = []string{"1", "-1", "-1-2+-3", "a", "(1)", "-(-a)", "1+2-a", "f(1)", "[1]", "{a:1}"}

func c04Programs(gen string) []string {
	switch gen {
	case "value":
		return c04ValuePrograms
	case "bool":
		return c04BoolPrograms
	case "float":
		return c04FloatPrograms
	}
	return c04MiniPrograms
}

var c04Soup = append(append([]string{}, soup...), "func", "else", "try", "catch", "switch", "case", "default", "true", "false", "->", "?:", "~", "!=", ">>", "%", "&", "|", "^", "pi", "sin", "x", "y", "f", "1e", "0x", "..", "\xe2\x82", "\xf0\x9f", "\xed\xa0\x80", "\xc0\xaf", "\xef\xbf\xbd")

type c04Stream struct {
	r     *Rng
	cases []C4Case
	tier  string
}

func (s *c04Stream) add(c C4Case) {
	c.ID = len(s.cases) + 1
	s.cases = append(s.cases, c)
}

func (s *c04Stream) cfg() (gen string, comments, comfort bool) {
	r := s.r
	switch p := r.Pick(20); {
	case p < 11:
		gen = "value"
	case p < 14:
		gen = "float"
	case p < 17:
		gen = "bool"
	case p < 19:
		gen = "lastunary"
	default:
		gen = "empty"
	}
	return gen, r.Chance(0.5), r.Chance(0.5)
}

func (s *c04Stream) randomBytes(n int) string {
	r := s.r
	bs := make([]byte, n)
	uniform := r.Chance(0.5)
	for j := range bs {
		if uniform || r.Chance(0.4) {
			bs[j] = byte(r.Pick(256))
		} else {
			const al = " \n\"'/*\\+-()[]{}1ae.:,;=<>!&|•\x00"
			bs[j] = al[r.Pick(len(al))]
		}
	}
	return string(bs)
}

func (s *c04Stream) soupText(n int) string {
	var b strings.Builder
	for b.Len() < n {
		b.WriteString(c04Soup[s.r.Pick(len(c04Soup))])
	}
	return b.String()
}

func (s *c04Stream) mutate(p string) string {
	r := s.r
	bs := []byte(p)
	for k := 1 + r.Pick(3); k > 0 && len(bs) > 0; k-- {
		i := r.Pick(len(bs))
		switch r.Pick(5) {
		case 0: // delete
			bs = append(bs[:i], bs[i+1:]...)
		case 1: // insert
			ins := c04Soup[r.Pick(len(c04Soup))]
			bs = append(bs[:i], append([]byte(ins), bs[i:]...)...)
		case 2: // duplicate a stretch
			j := i + 1 + r.Pick(4)
			if j > len(bs) {
				j = len(bs)
			}
			bs = append(bs[:j], append(append([]byte{}, bs[i:j]...), bs[j:]...)...)
		case 3: // swap
			j := r.Pick(len(bs))
			bs[i], bs[j] = bs[j], bs[i]
		default: // truncate
			bs = bs[:i]
		}
	}
	return string(bs)
}

// deep: open^d body close^d
func (s *c04Stream) deep(gen string, comments, comfort bool, kind string, d int) {
	var segs []C4Seg
	switch kind {
	case "paren":
		segs = []C4Seg{c04Seg("(", d), c04Seg("1", 1), c04Seg(")", d)}
	case "paren-open":
		segs = []C4Seg{c04Seg("(", d)}
	case "bracket":
		segs = []C4Seg{c04Seg("[", d), c04Seg("1", 1), c04Seg("]", d)}
	case "bracket-open":
		segs = []C4Seg{c04Seg("[", d)}
	case "brace":
		segs = []C4Seg{c04Seg("{a:", d), c04Seg("1", 1), c04Seg("}", d)}
	case "unary":
		segs = []C4Seg{c04Seg("-", d), c04Seg("1", 1)}
	case "if":
		segs = []C4Seg{c04Seg("if a then 1 else ", d), c04Seg("1", 1)}
	case "if-cond":
		segs = []C4Seg{c04Seg("if ", d), c04Seg("1", 1)}
	case "closure":
		segs = []C4Seg{c04Seg("x->", d), c04Seg("1", 1)}
	case "call":
		segs = []C4Seg{c04Seg("f(", d), c04Seg("1", 1), c04Seg(")", d)}
	case "plus":
		segs = []C4Seg{c04Seg("1+", d), c04Seg("1", 1)}
	case "dot":
		segs = []C4Seg{c04Seg("a", 1), c04Seg(".b", d)}
	case "index":
		segs = []C4Seg{c04Seg("a", 1), c04Seg("[0]", d)}
	case "let":
		segs = []C4Seg{c04Seg("let a=1;", d), c04Seg("a", 1)}
	case "callee-fails": // sqrt(1,2)(1)(1)...: the callee of every level fails at generation time (fixed: 7a0266c)
		segs = []C4Seg{c04Seg("sqrt(1,2)", 1), c04Seg("(1)", d)}
	case "callee-list": // [a](1)(1)...: a callee that is not a function, known at run time only
		segs = []C4Seg{c04Seg("[a]", 1), c04Seg("(1)", d)}
	case "callee-unknown": // nope(1)(1)...: unknown identifier as innermost callee
		segs = []C4Seg{c04Seg("nope", 1), c04Seg("(1)", d)}
	}
	s.add(C4Case{Gen: gen, Comments: comments, Comfort: comfort, Src: "deep/" + kind, Segs: segs, Deep: d})
}

// c04Streams builds the input streams of C04 (and C12): corpus first
func c04Streams(seed int64, tier string, boost int) []C4Case {
	s := &c04Stream{r: NewRng(seed), tier: tier}
	r := s.r
	thorough := tier == "thorough"
	scale := 1
	if thorough {
		scale = 25
	}
	scale *= boost

	// ---- corpus: inputs that failed on some version of the code
	s.add(c04Plain("empty", false, false, "corpus", "1"))      // index out of range in parseOp (fixed: c072a0a)
	s.add(c04Plain("empty", false, false, "corpus", "-1"))     //
	s.add(c04Plain("lastunary", false, false, "corpus", "-1")) // unary = last binary operator (fixed: c509299)
	s.add(c04Plain("lastunary", false, false, "corpus", "-1-2+-3"))
	s.add(c04Plain("value", false, false, "corpus", "1 ) )")) // C12: tokenizer goroutine left behind
	s.add(c04Plain("value", false, false, "corpus", "1 )"))
	s.add(c04Plain("value", false, false, "corpus", "sqrt(1,2)"+strings.Repeat("(1)", 400))) // error text and time quadratic in the nesting (fixed: 7a0266c)
	for _, t := range []string{"", "\x00", "a\x00b", "\"abc", "\"abc\n x", "'abc", "'ab\nc' d", "/*", "/* *", "/* */", "//", "a//", "a/*", "a/* x *", "/", "a/",
		"\"\\", "\"\\\x00\"", "\xff\xfe", "a\xffb", "+\xff", "<\xff=", "1e", "1e+", "1..2", "x²³", "²", "((((((((((", "/*a*//*b*/", "*/", "'", "\"", "'\x00'", "//\x00\nb", "/*\x00*/b",
		"/*\x00", "\"\xff", "'\xff", "//\xff", "/*\xff*/", "1\xff", "if\xff", "–>", "\ufeffa", "a.", "a[", "{a:", "{a", "f(", "x->", "let", "let a", "let a=", "func", "func f(", "if", "if a then",
		"try", "try a catch", "switch", "switch a case", "a?", "[1,", "a.b(", "-", "!", "a+", "(", ")", "]", "}", ";", ",", ":", "1 2", "a b", "\"a\" \"b\""} {
		for _, cm := range []bool{false, true} {
			s.add(c04Plain("value", cm, false, "corpus/malformed", t))
		}
	}

	// ---- wide constructs (many arguments, parameters, locals, entries, cases; long chains)
	s.wide(thorough)

	// ---- constant expressions whose folding panics, at every position the parser optimizes
	s.foldBombs(thorough)

	// ---- unterminated string / comment / quoted identifier at every position incl. the end; NUL; invalid UTF-8
	inserts := []string{"\"", "'", "/*", "//", "\x00", "\xff", "\xc3", "\xe2\x82", "\\"}
	progs := []struct{ gen, p string }{{"value", c04ValuePrograms[4]}, {"value", c04ValuePrograms[9]}, {"float", c04FloatPrograms[0]}, {"bool", c04BoolPrograms[1]}}
	if thorough {
		for _, p := range c04ValuePrograms {
			progs = append(progs, struct{ gen, p string }{"value", p})
		}
	}
	for pi, pr := range progs {
		for i := 0; i <= len(pr.p); i++ {
			for _, ins := range inserts {
				if !thorough && (pi >= 2 && r.Chance(0.5) || pi < 2 && r.Chance(0.3)) {
					continue
				}
				s.add(c04Plain(pr.gen, true, r.Chance(0.5), "insert-at-every-position/"+fmt.Sprintf("%q", ins), pr.p[:i]+ins+pr.p[i:]))
			}
		}
	}

	// ---- stray closers at every rune position of programs with two-token lexemes: a superscript digit is sent as
	// the two tokens ^ n, comfort mode sends an implicit * in front of an operand; the parser can stop between the two
	twoTok := []struct {
		gen string
		cf  bool
		p   string
	}{
		{"value", false, "func sq(x) x²; sq(3)+[1,2][1]²"}, {"value", true, "let r=2a(b+1)³; 3r r"}, {"value", true, "(a+b)(a-b)²x"},
		{"float", true, "2(a+b)(a-b)/3x²"}, {"float", true, "sin(2pi x)² 3a b"}, {"value", false, "{k:a²}.k²+f(b³)²"},
	}
	for ti, tt := range twoTok {
		rs := []rune(tt.p)
		for i := 0; i <= len(rs); i++ {
			for ci, closer := range []string{")", "]", "}", ";", "²"} {
				if !thorough && ti >= 3 && (i+ci)%2 == 0 {
					continue
				}
				s.add(c04Plain(tt.gen, r.Chance(0.3), tt.cf, "stray-closer-at-every-position", string(rs[:i])+closer+string(rs[i:])))
			}
		}
	}

	// ---- random streams
	for i := 0; i < 250*scale; i++ {
		gen, cm, cf := s.cfg()
		n := r.Pick(48)
		if r.Chance(0.1) {
			n = 200 + r.Pick(1800)
		}
		s.add(c04Plain(gen, cm, cf, "random-bytes", s.randomBytes(n)))
	}
	for i := 0; i < 200*scale; i++ {
		gen, cm, cf := s.cfg()
		n := 1 + r.Pick(60)
		if r.Chance(0.08) {
			n = 500 + r.Pick(2500)
		}
		s.add(c04Plain(gen, cm, cf, "token-soup", s.soupText(n)))
	}
	for i := 0; i < 400*scale; i++ {
		gen, cm, cf := s.cfg()
		ps := c04Programs(gen)
		p := ps[r.Pick(len(ps))]
		if gen == "value" && r.Chance(0.5) {
			g := &pgen{r: r, cfg: getCfg("value", cm, cf)}
			g.program(1 + r.Pick(2))
			p = itemsText(g.layout(g.out, "random"))
		}
		if r.Chance(0.15) {
			s.add(c04Plain(gen, cm, cf, "valid-program", p))
		} else {
			s.add(c04Plain(gen, cm, cf, "mutated-program", s.mutate(p)))
		}
	}

	// ---- long inputs up to 64 KiB
	long := []struct {
		gen string
		cm  bool
		cf  bool
		src string
		txt string
	}{
		{"value", true, false, "long/random-bytes-64K", s.randomBytes(65536)},
		{"value", false, true, "long/token-soup-16K", s.soupText(16000)},
		{"float", true, true, "long/mutated-programs-8K", ""},
	}
	{
		var b strings.Builder
		for b.Len() < 8000 {
			b.WriteString(s.mutate(c04FloatPrograms[r.Pick(len(c04FloatPrograms))]))
			b.WriteString("+")
		}
		long[2].txt = b.String()
	}
	for _, l := range long {
		s.add(c04Plain(l.gen, l.cm, l.cf, l.src, l.txt))
	}
	s.add(C4Case{Gen: "value", Comments: true, Src: "long/valid-64K", Segs: []C4Seg{c04Seg("a*2+[1,2].size()-", 3855), c04Seg("1", 1)}})
	s.add(C4Case{Gen: "value", Comments: true, Src: "long/comment-64K", Segs: []C4Seg{c04Seg("1 /*", 1), c04Seg("*x/", 21840)}})
	s.add(C4Case{Gen: "value", Comments: false, Src: "long/string-64K", Segs: []C4Seg{c04Seg("\"", 1), c04Seg("\\n\xffé", 13000)}})
	if thorough {
		for i := 0; i < 20*boost; i++ {
			gen, cm, cf := s.cfg()
			s.add(c04Plain(gen, cm, cf, "long/random-bytes-64K", s.randomBytes(65536)))
			s.add(c04Plain(gen, cm, cf, "long/token-soup-64K", s.soupText(65000)))
		}
	}

	// ---- deep nesting
	kinds := []string{"paren", "paren-open", "bracket", "bracket-open", "brace", "unary", "if", "if-cond", "closure", "call", "plus", "dot", "index", "let", "callee-fails", "callee-list", "callee-unknown"}
	if thorough {
		for _, k := range kinds {
			s.deep("value", false, false, k, 30000)
			s.deep("float", true, true, k, 30000)
		}
		s.deep("value", false, false, "paren-open", 65536)
		s.deep("bool", false, false, "paren", 30000)
		s.deep("lastunary", false, false, "unary", 30000)
		s.deep("empty", false, false, "paren", 30000)
	} else {
		for _, k := range kinds {
			s.deep("value", false, false, k, 2000)
		}
		// 30000 levels: the cheap grammars in the quick tier (8 KB of fresh memory per level and operator table entry)
		s.deep("empty", false, false, "paren", 30000)
		s.deep("lastunary", false, false, "unary", 30000)
		s.deep("bool", false, false, "paren", 30000)
		s.deep("value", false, false, "unary", 30000)
		s.deep("value", false, false, "if", 3700) // 64 KiB
		s.deep("float", false, true, "bracket-open", 30000)
	}
	return s.cases
}

// ---------------------------------------------------------------- Coq terms

// c04Runs compresses a sequence into (piece, repetitions) runs with period 1..4; literal stretches are cut into
// pieces of at most 400 items (Coq's list notation is parsed recursively)
func c04Runs(items []string) [][2]any {
	var out [][2]any
	var lit []string
	flush := func() {
		for len(lit) > 0 {
			n := len(lit)
			if n > 400 {
				n = 400
			}
			out = append(out, [2]any{append([]string{}, lit[:n]...), 1})
			lit = lit[n:]
		}
	}
	i := 0
	for i < len(items) {
		bestP, bestR := 0, 0
		for p := 1; p <= 4 && i+2*p <= len(items); p++ {
			rep := 1
			for i+(rep+1)*p <= len(items) {
				ok := true
				for k := 0; k < p; k++ {
					if items[i+rep*p+k] != items[i+k] {
						ok = false
						break
					}
				}
				if !ok {
					break
				}
				rep++
			}
			if rep >= 8 && rep*p > bestP*bestR {
				bestP, bestR = p, rep
			}
		}
		if bestR > 0 {
			flush()
			out = append(out, [2]any{append([]string{}, items[i:i+bestP]...), bestR})
			i += bestP * bestR
		} else {
			lit = append(lit, items[i])
			i++
		}
	}
	flush()
	return out
}

// c04CoqSegs renders runs as a Coq list of (piece, repetitions); pieces of a long case become definitions
func c04CoqSegs(runs [][2]any, name string, ty string, defs *strings.Builder) string {
	parts := make([]string, len(runs))
	for i, rn := range runs {
		piece := "[" + strings.Join(rn[0].([]string), ";") + "]"
		if len(runs) > 6 {
			dn := fmt.Sprintf("%s_%d", name, i)
			fmt.Fprintf(defs, "Definition %s : list (%s) := %s.\n", dn, ty, piece)
			piece = dn
		}
		parts[i] = fmt.Sprintf("(%s,%d)", piece, rn[1].(int))
	}
	if len(parts) > 400 {
		// the list of segments itself in chunks
		var chunks []string
		for j := 0; j < len(parts); j += 400 {
			e := j + 400
			if e > len(parts) {
				e = len(parts)
			}
			dn := fmt.Sprintf("%s_c%d", name, j/400)
			fmt.Fprintf(defs, "Definition %s : list (list (%s) * N) := [%s].\n", dn, ty, strings.Join(parts[j:e], ";"))
			chunks = append(chunks, dn)
		}
		return "(" + strings.Join(chunks, " ++ ") + ")"
	}
	return "[" + strings.Join(parts, ";") + "]"
}

func c04CoqCfg(gen string, comments, comfort bool, input string) string {
	seen := map[rune]bool{}
	var letters, numbers []rune
	for _, r := range decodeRunes(input) {
		if seen[r] {
			continue
		}
		seen[r] = true
		if unicode.IsLetter(r) {
			letters = append(letters, r)
		}
		if unicode.IsNumber(r) {
			numbers = append(numbers, r)
		}
	}
	return fmt.Sprintf("(mkc k4_%s %s %s %s %s)", gen, CoqBool(comments), CoqBool(comfort), CoqRunes(letters), CoqRunes(numbers))
}

func c04CoqTables() string {
	var b strings.Builder
	for _, gen := range c04Gens {
		ops, to, kw := c04GetGen(gen).config()
		sort.Strings(ops)
		c := &tokCfg{Name: "x", Ops: ops, TextOps: to, Keywords: kw}
		t := c.coqTables()
		b.WriteString(strings.Replace(t, "Definition k_x ", "Definition k4_"+gen+" ", 1))
		g := c04GetGen(gen)
		pops, unary := g.pconfig()
		sort.Strings(unary)
		strh := g.parseKind("\"s\"") == 0
		co := func(l []string) string {
			xs := make([]string, len(l))
			for i, o := range l {
				xs[i] = CoqStr(o)
			}
			return CoqList(xs)
		}
		fmt.Fprintf(&b, "Definition p4_%s : c04_ptab := (%s, %s, %s, %s).\n", gen, co(pops), co(unary), CoqBool(strh), co(c04Args))
	}
	return b.String()
}

func c04InputRuns(input string) [][2]any {
	rs := decodeRunes(input)
	items := make([]string, len(rs))
	for i, r := range rs {
		items[i] = strconv.Itoa(int(r))
	}
	return c04Runs(items)
}

func c04TokenRuns(ts []parser2.VerifToken) [][2]any {
	items := make([]string, len(ts))
	for i, t := range ts {
		items[i] = fmt.Sprintf("(%d,%s,%d)", t.Typ, CoqStr(t.Image), t.Line)
	}
	return c04Runs(items)
}

// ---------------------------------------------------------------- the check

var c04DigitsRe = regexp.MustCompile(`[0-9]+`)
var c04QuoteRe = regexp.MustCompile(`'[^']*'|"[^"]*"|\(0x[0-9a-f]*\)`)

// error site class: the message without the parts that vary with the input
func c04ErrClass(msg string) string {
	m := c04QuoteRe.ReplaceAllString(msg, "_")
	m = c04DigitsRe.ReplaceAllString(m, "#")
	if i := strings.Index(m, "\n"); i >= 0 {
		m = m[:i]
	}
	if len(m) > 70 {
		m = m[:70]
	}
	return m
}

var c04OutcomeName = []string{"function", "error", "panic", "timeout", "crash"}

func c04Signature(c *C4Case, r *C4Result) string {
	site := r.Site
	if r.Outcome == 3 {
		site = "parser"
		if r.TokHang {
			site = "tokenizer"
		} else if c.Src == "fold-cost" {
			site = "constant-folding"
		}
	}
	if site == "" {
		site = "unknown"
	}
	trait := c.Gen
	if c.Comments {
		trait += "+comments"
	}
	if c.Comfort {
		trait += "+comfort"
	}
	if c.NoOpt {
		trait += "+no-optimizer"
	}
	return fmt.Sprintf("%s/%s/%s", c04OutcomeName[r.Outcome], site, trait)
}

func c04Human(c *C4Case, r *C4Result, src string) map[string]any {
	show := src
	if len(show) > 200 {
		show = show[:100] + " ... " + show[len(show)-60:]
	}
	h := map[string]any{"input": fmt.Sprintf("%q", show), "bytes": len(src), "generator": c.Gen, "comments": c.Comments, "comfort": c.Comfort, "optimizer": !c.NoOpt,
		"stream": c.Src, "outcome": c04OutcomeName[r.Outcome], "message": r.Msg, "micros": r.Micros, "fresh_kb": r.StackKB, "tokens": len(r.Tokens), "parse": []string{"AST", "error", "panic", "not observed"}[r.PKind], "repro": c}
	if r.Outcome >= 2 {
		h["signature"] = c04Signature(c, r)
	} else {
		h["signature"] = "model/" + c.Src
	}
	return h
}

func cmdC04(seed int64, tier, outDir string) {
	sum := NewSummary("C04", seed, tier)
	sum.Rule = "streams: corpus of past failures; wide constructs (calls of vararg static functions, closure values, methods, map-field closures with 1..200 arguments, 1..200 locals in scope in front of a call, functions with 1..200 parameters, list/map literals up to 5000 entries, switch with many cases, long operator and method chains; sizes around 32, 64, 128, 256; optimizer on/off); stray closers ) ] } ; and superscripts at every rune position of programs with superscripts and comfort products (two-token lexemes); fold bombs (constant expressions whose folding at Generate time panics, fails or recurses into the stack guard - self application, pure host functions that panic/fail, failing constant index/member/method/operator - at every position the parser hands to the optimizer, optimizer on/off, a returned function is evaluated and must return); unterminated string/comment/quoted identifier, NUL and invalid UTF-8 inserted at every position of valid programs; uniform and alphabet-biased random bytes; token soup over the language's alphabet; mutations (delete/insert/duplicate/swap/truncate) of valid programs (built-in programs per grammar and the C15 program generator); inputs up to 64 KiB; nesting up to 30000 (parentheses, brackets, braces, unary chains, if chains, closures, calls ...) x {value, bool, float generators, a generator without binary operators, one whose prefix operator is its last binary operator} x {comments, comfort}. Non-trivial = Generate returned an error on an input of at least 3 tokens, or a function on an input of at least 10 tokens; distinct by (generator, comments, comfort, outcome, error message class, token type sequence)"
	log.SetOutput(io.Discard)
	cw := NewCaseWriter(outDir, "From P2 Require Import Base.Prelude Lex.Token Lex.Tok Run.C15Run Run.C04Run.", "c04_case", "c04_id", "c04_im", "c04_is", 250)
	base := c04CoqTables()
	cw.prelude = base

	var cases []C4Case
	if optReplay != "" {
		var c C4Case
		if err := json.Unmarshal(loadReplayCase(), &c); err != nil {
			fatal("replay case: %v", err)
		}
		c.ID = 1
		cases = []C4Case{c}
	} else {
		cases = c04Streams(seed, tier, optBoost)
	}
	t0 := time.Now()
	results := c04Exec(cases, filepath.Join(outDir, "work"), "p", 16)
	sum.Extra["worker_phase_s"] = time.Since(t0).Seconds()

	// judge the time bound; what is over the bound (or timed out / crashed) under 16-fold load is repeated alone
	over := func(c *C4Case, r *C4Result) bool {
		if r.Outcome >= 3 {
			return true
		}
		return time.Duration(r.Micros)*time.Microsecond > c04BoundCase(c, len(c04Text(c.Segs)), r.StackKB)
	}
	var again []C4Case
	hard := 0
	for i := range cases {
		if r := results[cases[i].ID]; r != nil && over(&cases[i], r) {
			if r.Outcome >= 3 {
				// the watchdog fired or the worker died: repeating costs the whole watchdog time again, so only the
				// first three (smallest ids = corpus first) are repeated, once
				hard++
				if hard > 3 {
					continue
				}
			}
			again = append(again, cases[i])
		}
	}
	sum.Extra["repeated_alone"] = len(again)
	sum.Extra["watchdog_or_crash_in_first_run"] = hard
	if len(again) > 40 {
		again = again[:40]
	}
	for round := 0; round < 2 && len(again) > 0; round++ {
		var still []C4Case
		for i := range again {
			old := results[again[i].ID]
			if round > 0 && old.Outcome >= 3 {
				continue
			}
			rr := c04Exec(again[i:i+1], filepath.Join(outDir, "work"), fmt.Sprintf("s%d", round), 1)
			r := rr[again[i].ID]
			if r == nil {
				continue
			}
			if r.Outcome < 3 && (old.Outcome >= 3 || r.Micros-250*r.StackKB < old.Micros-250*old.StackKB) {
				results[again[i].ID] = r
			}
			if over(&again[i], results[again[i].ID]) {
				still = append(still, again[i])
			}
		}
		again = still
	}

	maxRatio := 0.0
	for i := range cases {
		c := &cases[i]
		r := results[c.ID]
		if r == nil {
			sum.Skipped["not-run"]++
			continue
		}
		src := c04Text(c.Segs)
		sum.Evaluations++
		depth := c04Depth(r.Tokens)
		bound := c04BoundCase(c, len(src), r.StackKB)
		if r.Outcome < 3 && time.Duration(r.Micros)*time.Microsecond > bound {
			r.Outcome = 3
			r.Msg = fmt.Sprintf("Generate returned after %v, the bound for %d bytes and %d KB of fresh memory is %v (also when run alone)", time.Duration(r.Micros)*time.Microsecond, len(src), r.StackKB, bound)
		} else if r.Outcome < 3 && r.StackKB > c04StackBoundKB(len(src)) {
			r.Outcome = 3
			r.Msg = fmt.Sprintf("Generate needed %d KB of fresh memory for %d bytes of input, more than the linear bound %d KB", r.StackKB, len(src), c04StackBoundKB(len(src)))
		}
		if r.StackKB > 1024 && c.Deep > 0 {
			sum.Count("stack_growth", fmt.Sprintf("%d KB per nesting level (depth %d, %s)", r.StackKB/int64(max(c.Deep, 1)), c.Deep, c.Src))
		}
		if r.Outcome < 3 {
			if q := float64(r.Micros) / float64(bound.Microseconds()); q > maxRatio {
				maxRatio = q
			}
		}
		sum.Count("stream", strings.SplitN(c.Src, "/", 2)[0])
		sum.Count("generator", c.Gen)
		sum.Count("config", fmt.Sprintf("comments=%v comfort=%v", c.Comments, c.Comfort))
		sum.Count("outcome", c04OutcomeName[r.Outcome])
		sum.Count("input_bytes", bucketBig(len(src)))
		sum.Count("tokens", bucketBig(len(r.Tokens)))
		sum.Count("nesting", bucketBig(depth))
		if !utf8.ValidString(src) {
			sum.Count("utf8", "invalid")
		} else {
			sum.Count("utf8", "valid")
		}
		if strings.ContainsRune(src, 0) {
			sum.Count("nul", "contains NUL")
		}
		if r.Outcome == 1 {
			sum.Count("error_class", c04ErrClass(r.Msg))
		}
		if r.RecvKnown {
			if r.Received < r.Total {
				sum.Count("parser_stopped", "with tokens unsent")
			} else {
				sum.Count("parser_stopped", "at the end of the stream")
			}
		}
		if (r.Outcome == 1 && len(r.Tokens) >= 3) || (r.Outcome == 0 && len(r.Tokens) >= 10) {
			var b strings.Builder
			fmt.Fprintf(&b, "%s %v %v %d %s|", c.Gen, c.Comments, c.Comfort, r.Outcome, c04ErrClass(r.Msg))
			for _, t := range r.Tokens {
				b.WriteByte(byte('a' + t.Typ))
			}
			sum.Nontriv(b.String())
		}
		human := c04Human(c, r, src)
		sum.Cases[fmt.Sprint(c.ID)] = human
		if r.Outcome == 1 && len(r.Tokens) > 4 {
			sum.Sample(human)
		}
		if r.Outcome >= 2 {
			what := map[int]string{2: "a panic escaped from Generate: ", 3: "Generate did not return within the time bound: ", 4: "the process died: "}[r.Outcome] + r.Msg
			sum.GoViolations = append(sum.GoViolations, GoViolation{CaseID: c.ID, What: what, Sig: human["signature"].(string), Human: human,
				Expected: "a function or an error", Observed: c04OutcomeName[r.Outcome]})
		}
		if r.TokHang || r.Outcome == 4 && len(r.Tokens) == 0 {
			// no token stream was observed: nothing to compare in Coq, the violation is reported from Go
			sum.Skipped["no token stream (hang/crash), judged in Go"]++
			continue
		}
		if false && c.Src == "fold-bomb" && c.ID%8 != 0 && optReplay == "" {
			// small valid programs from a fixed set of templates: their token streams add nothing to the scanner
			// comparison; the outcome (returned / panic / hang) is judged above. One in eight still goes through Coq.
			sum.Skipped["fold-bomb stream: outcome judged in Go, token stream not sent to Coq (1 in 8 is)"]++
			continue
		}
		// Coq case
		var defs strings.Builder
		name := fmt.Sprintf("c%d", c.ID)
		in := c04CoqSegs(c04InputRuns(src), name+"i", "N", &defs)
		ob := c04CoqSegs(c04TokenRuns(r.Tokens), name+"t", "N * str * N", &defs)
		big := len(src) > 6000 || len(r.Tokens) > 3000
		if big {
			cw.Flush()
			cw.prelude = base
		}
		cw.prelude += defs.String()
		bad := make([]string, len(r.BadNums))
		for i, b := range r.BadNums {
			bad[i] = CoqStr(b)
		}
		known := make([]string, len(r.Known))
		for i, k := range r.Known {
			fn := 0
			if k[1] == "f" {
				fn = 1
			}
			known[i] = fmt.Sprintf("(%s,%d)", CoqStr(k[0]), fn)
		}
		pk := r.PKind
		cw.Add(fmt.Sprintf("(%d, %s, %s, %s, (%d, %s, %d, %d), (%d, %s, %s, p4_%s))", c.ID, c04CoqCfg(c.Gen, c.Comments, c.Comfort, src), in, ob,
			r.Outcome, CoqBool(r.RecvKnown), r.Received, r.Total, pk, CoqList(bad), CoqList(known), c.Gen))
		if big {
			cw.Flush()
		}
		if len(cw.cur) == 0 {
			cw.prelude = base
		}
	}
	cw.Flush()
	sum.CaseFiles = cw.files
	sum.Extra["max_time_over_bound"] = maxRatio
	sum.Extra["time_bound"] = "50 ms + 50 us x bytes + 250 us x KB of fresh memory the call needed (memory <= 16 MB + 32 KB x bytes; the runtime obtains memory in 4 MB steps), time = min(wall, process CPU time) of the call, judged on the fastest of up to three runs (the first under 16-fold parallel load, the others alone)"
	sort.SliceStable(sum.GoViolations, func(i, j int) bool {
		return sum.GoViolations[i].Human["bytes"].(int) < sum.GoViolations[j].Human["bytes"].(int)
	})
	sum.Write(outDir)
}

func bucketBig(n int) string {
	switch {
	case n <= 100:
		return bucket(n)
	case n <= 1000:
		return "101-1000"
	case n <= 10000:
		return "1001-10000"
	}
	return ">10000"
}
